package rx

import (
	"errors"
	"regexp"
	"regexp/syntax"
	"strings"
	"testing"
	"unicode"
	"unicode/utf8"
)

const (
	patImmutable   = `^\s*//\s*@immutable(?:\s+.*)?$`
	patConstructor = `^\s*//\s*@constructor(?:\s+([a-zA-Z_][a-zA-Z0-9_]*(?:\s*,\s*[a-zA-Z_][a-zA-Z0-9_]*)*(?:\s*,)?))?(?:\s+.*)?$`
	patImplements  = `^\s*//\s*@implements\s+(&)?(?:(\w+)\.)?(\w+)(?:\s+.*)?$`
)

var noNL = Options{ExcludeRunes: []rune{'\n'}}

// ---------------------------------------------------------------------------
// Brute-force infrastructure
// ---------------------------------------------------------------------------

var testAlphabet = []rune{'/', '@', 'a', 'B', '_', ' ', '\t', ',', '.', '\n', '1', '&'}

var diffPatterns = []string{
	``,
	`a`,
	`^a`,
	`a$`,
	`^a$`,
	`x*`,
	`^x*$`,
	`[^a]`,
	`^[^a]*$`,
	`.`,
	`(?s).`,
	`^.*$`,
	`^(?s:.*)$`,
	`^.$`,
	`(?m)^a$`,
	`(?m)^$`,
	`(?m)a$`,
	`(?m)^\s`,
	`(?m)$\n^`,
	`^$`,
	`\n$`,
	`a\z`,
	`\Aa`,
	`\bfoo\b`,
	`\ba\b`,
	`\ba`,
	`a\b`,
	`a\B`,
	`\Ba`,
	`\B`,
	`\b`,
	`^\b`,
	`\b$`,
	`\B$`,
	`^\B`,
	`\s`,
	`\S`,
	`\w`,
	`\W`,
	`\d`,
	`^\s*$`,
	`^\w+$`,
	`^\s+\w`,
	`a|B`,
	`[aB]`,
	`(?i)b`,
	`(?i)^A+$`,
	`(?i)[a-b]_`,
	`a.*?B`,
	`a.*B`,
	`^a+?B??$`,
	`a{2,3}`,
	`^a{2,3}$`,
	`^(?:a|B)*_$`,
	`^(?:a|aa)*$`,
	`(a|B)(,\s*(a|B))+`,
	`[[:alpha:]]+1`,
	`[^\n]`,
	`[\t\n\f\r ]`,
	`/[/@]a`,
	`^\s*//`,
	`^\s*//\s*@a(?:\s+.*)?$`,
	`^\s*//\s*@a(?:\s.*)?$`,
	`^\s*//\s*@a`,
	`\s*//\s*@a(?:\s+.*)?$`,
	`^\s*//\s+@a(?:\s+.*)?$`,
	`^\s*@a\s+(&)?(?:(\w+)\.)?(\w+)(?:\s+.*)?$`,
	`^@(?:\s+(\w+(?:\s*,\s*\w+)*(?:\s*,)?))?(?:\s+.*)?$`,
	patImmutable,
	patConstructor,
	patImplements,
}

// allStrings enumerates every string over alpha of length <= maxLen, shorter
// strings first.
func allStrings(alpha []rune, maxLen int) []string {
	out := []string{""}
	prev := []string{""}
	for l := 1; l <= maxLen; l++ {
		var cur []string
		for _, p := range prev {
			for _, r := range alpha {
				cur = append(cur, p+string(r))
			}
		}
		out = append(out, cur...)
		prev = cur
	}
	return out
}

type bruteTable struct {
	strs  []string
	hasNL []bool
	pats  []string
	res   []*regexp.Regexp
	match [][]bool
}

var cachedTable *bruteTable

func getTable(t *testing.T) *bruteTable {
	if cachedTable != nil {
		return cachedTable
	}
	maxLen := 5
	if testing.Short() {
		maxLen = 3
	}
	bt := &bruteTable{strs: allStrings(testAlphabet, maxLen), pats: diffPatterns}
	bt.hasNL = make([]bool, len(bt.strs))
	for i, s := range bt.strs {
		bt.hasNL[i] = strings.ContainsRune(s, '\n')
	}
	for _, p := range bt.pats {
		re, err := regexp.Compile(p)
		if err != nil {
			t.Fatalf("pattern %q: %v", p, err)
		}
		m := make([]bool, len(bt.strs))
		for i, s := range bt.strs {
			m[i] = re.MatchString(s)
		}
		bt.res = append(bt.res, re)
		bt.match = append(bt.match, m)
	}
	cachedTable = bt
	return bt
}

func singleDFA(t *testing.T, p string, opt Options) *dfa {
	t.Helper()
	n, err := newNFA(p)
	if err != nil {
		t.Fatalf("newNFA(%q): %v", p, err)
	}
	al, err := buildAlphabet([]*nfa{n}, opt.ExcludeRunes)
	if err != nil {
		t.Fatalf("buildAlphabet(%q): %v", p, err)
	}
	return newDFA(n, al)
}

// ---------------------------------------------------------------------------
// 1a. The DFA agrees with package regexp on every enumerated string.
// ---------------------------------------------------------------------------

func TestMembershipAgainstRegexp(t *testing.T) {
	bt := getTable(t)
	for pi, p := range bt.pats {
		for _, opt := range []Options{{}, noNL} {
			d := singleDFA(t, p, opt)
			bad := 0
			for i, s := range bt.strs {
				got, ok := d.run(s)
				if len(opt.ExcludeRunes) > 0 && bt.hasNL[i] {
					if ok {
						t.Fatalf("%q: string %q should be outside the universe", p, s)
					}
					continue
				}
				if !ok {
					t.Fatalf("%q: string %q rejected as outside the universe", p, s)
				}
				if got != bt.match[pi][i] {
					t.Errorf("pattern %q opt %v string %q: dfa=%v regexp=%v", p, opt, s, got, bt.match[pi][i])
					if bad++; bad > 5 {
						break
					}
				}
			}
		}
	}
}

// ---------------------------------------------------------------------------
// 1b. Equivalent / Subset agree with brute force on every pair.
// ---------------------------------------------------------------------------

func checkWitness(t *testing.T, what, a, b string, ra, rb *regexp.Regexp, opt Options, r Result, wantInA *bool) {
	t.Helper()
	for _, x := range opt.ExcludeRunes {
		if strings.ContainsRune(r.Witness, x) {
			t.Errorf("%s(%q,%q): witness %q contains excluded rune %q", what, a, b, r.Witness, x)
		}
	}
	if !utf8.ValidString(r.Witness) {
		t.Errorf("%s(%q,%q): witness %q is not valid UTF-8", what, a, b, r.Witness)
	}
	ma := ra.MatchString(r.Witness)
	mb := false
	if rb != nil {
		mb = rb.MatchString(r.Witness)
	}
	if ma != r.InA || mb != !r.InA {
		t.Errorf("%s(%q,%q): witness %q InA=%v but regexp says A=%v B=%v", what, a, b, r.Witness, r.InA, ma, mb)
	}
	if wantInA != nil && r.InA != *wantInA {
		t.Errorf("%s(%q,%q): InA=%v, want %v", what, a, b, r.InA, *wantInA)
	}
}

func TestDifferentialPairs(t *testing.T) {
	bt := getTable(t)
	yes := true
	nChecked, nHolds := 0, 0
	for ai, a := range bt.pats {
		for bi, b := range bt.pats {
			for _, opt := range []Options{{}, noNL} {
				excl := len(opt.ExcludeRunes) > 0
				// brute force: first (hence shortest) counterexamples
				firstDiff, firstAnotB := -1, -1
				ma, mb := bt.match[ai], bt.match[bi]
				for i := range bt.strs {
					if excl && bt.hasNL[i] {
						continue
					}
					if ma[i] != mb[i] && firstDiff < 0 {
						firstDiff = i
					}
					if ma[i] && !mb[i] {
						firstAnotB = i
						break
					}
				}

				eq, err := Equivalent(a, b, opt)
				if err != nil {
					t.Fatalf("Equivalent(%q,%q): %v", a, b, err)
				}
				nChecked++
				if eq.Holds {
					nHolds++
					if firstDiff >= 0 {
						t.Errorf("Equivalent(%q,%q,%v) holds but %q distinguishes", a, b, opt, bt.strs[firstDiff])
					}
				} else {
					checkWitness(t, "Equivalent", a, b, bt.res[ai], bt.res[bi], opt, eq, nil)
					if firstDiff >= 0 && utf8.RuneCountInString(eq.Witness) > utf8.RuneCountInString(bt.strs[firstDiff]) {
						t.Errorf("Equivalent(%q,%q,%v): witness %q longer than brute-force %q", a, b, opt, eq.Witness, bt.strs[firstDiff])
					}
				}
				if (ai == bi) && !eq.Holds {
					t.Errorf("Equivalent(%q,%q) must hold", a, a)
				}

				sub, err := Subset(a, b, opt)
				if err != nil {
					t.Fatalf("Subset(%q,%q): %v", a, b, err)
				}
				nChecked++
				if sub.Holds {
					nHolds++
					if firstAnotB >= 0 {
						t.Errorf("Subset(%q,%q,%v) holds but %q is a counterexample", a, b, opt, bt.strs[firstAnotB])
					}
				} else {
					checkWitness(t, "Subset", a, b, bt.res[ai], bt.res[bi], opt, sub, &yes)
					if firstAnotB >= 0 && utf8.RuneCountInString(sub.Witness) > utf8.RuneCountInString(bt.strs[firstAnotB]) {
						t.Errorf("Subset(%q,%q,%v): witness %q longer than brute-force %q", a, b, opt, sub.Witness, bt.strs[firstAnotB])
					}
					if eq.Holds {
						t.Errorf("Equivalent(%q,%q) holds but Subset does not", a, b)
					}
				}
			}
		}
		// Empty against brute force.
		for _, opt := range []Options{{}, noNL} {
			excl := len(opt.ExcludeRunes) > 0
			first := -1
			for i := range bt.strs {
				if excl && bt.hasNL[i] {
					continue
				}
				if bt.match[ai][i] {
					first = i
					break
				}
			}
			em, err := Empty(a, opt)
			if err != nil {
				t.Fatalf("Empty(%q): %v", a, err)
			}
			if em.Holds {
				if first >= 0 {
					t.Errorf("Empty(%q,%v) holds but %q matches", a, opt, bt.strs[first])
				}
			} else {
				checkWitness(t, "Empty", a, "", bt.res[ai], nil, opt, em, &yes)
				if first >= 0 && utf8.RuneCountInString(em.Witness) > utf8.RuneCountInString(bt.strs[first]) {
					t.Errorf("Empty(%q,%v): witness %q longer than brute-force %q", a, opt, em.Witness, bt.strs[first])
				}
			}
		}
	}
	t.Logf("%d patterns, %d strings, %d relation queries (%d hold)", len(bt.pats), len(bt.strs), nChecked, nHolds)
	if nHolds < len(bt.pats) {
		t.Errorf("suspiciously few positive answers: %d", nHolds)
	}
}

// ---------------------------------------------------------------------------
// The rune-class partition is uniform over the whole rune space.
// ---------------------------------------------------------------------------

func TestAlphabetPartition(t *testing.T) {
	groups := [][]string{
		{`(?i)k`, `(?i)[a-z]+ſ`, `\pL`, `[^a]`, `(?i)σ`, `.`, `(?s).`, `\w\b`},
		{`(?i)straße`, `[\p{Greek}\d]`, `\PL`, `[[:^alpha:]]`, `\x{FFFD}`, `[\x{D7FF}-\x{E000}]`, `(?i)[k-s]`},
		{patImmutable, patConstructor, patImplements},
	}
	for _, g := range groups {
		for _, excl := range [][]rune{nil, {'\n'}, {'a', 0x212A, 0xFFFD}} {
			var ns []*nfa
			for _, p := range g {
				n, err := newNFA(p)
				if err != nil {
					t.Fatal(err)
				}
				ns = append(ns, n)
			}
			al, err := buildAlphabet(ns, excl)
			if err != nil {
				t.Fatal(err)
			}
			ex := map[rune]bool{}
			for _, r := range excl {
				ex[r] = true
			}
			for c, rep := range al.rep {
				if al.classOf(rep) != c {
					t.Fatalf("representative %U of class %d maps to class %d", rep, c, al.classOf(rep))
				}
			}
			bad := 0
			for r := rune(0); r <= unicode.MaxRune; r++ {
				c := al.classOf(r)
				if (r >= 0xD800 && r <= 0xDFFF) || ex[r] {
					if c != -1 {
						t.Errorf("rune %U should be outside the universe", r)
					}
					continue
				}
				if c < 0 {
					t.Fatalf("rune %U has no class", r)
				}
				rep := al.rep[c]
				if kindOf(r) != al.kind[c] || kindOf(rep) != al.kind[c] {
					t.Errorf("rune %U: kind mismatch with class %d (rep %U)", r, c, rep)
					bad++
				}
				for _, n := range ns {
					for _, pc := range n.runePCs {
						if n.matchRune(pc, r) != n.matchRune(pc, rep) {
							t.Errorf("rune %U and its representative %U differ on inst %d of %q", r, rep, pc, n.src)
							bad++
						}
					}
				}
				if bad > 10 {
					t.FailNow()
				}
			}
			t.Logf("%d patterns, exclude %q: %d intervals, %d classes", len(g), string(excl), len(al.lo), al.numClasses())
		}
	}
}

func TestRepresentativesReadable(t *testing.T) {
	r, err := Equivalent(`^[^x]$`, `^[^xy]$`, Options{})
	if err != nil || r.Holds || r.Witness != "y" || !r.InA {
		t.Errorf("got %+v, %v", r, err)
	}
	r, err = Equivalent(`^.$`, `^\S$`, noNL)
	if err != nil || r.Holds || r.Witness != " " || !r.InA {
		t.Errorf("got %+v, %v", r, err)
	}
	r, err = Subset(`^.$`, `^[\s\pL\pN]$`, noNL)
	if err != nil || r.Holds || len(r.Witness) != 1 || r.Witness[0] < 0x21 || r.Witness[0] > 0x7e {
		t.Errorf("got %+v, %v", r, err)
	}
	// `.` alone: shortest member is one rune, and a letter is preferred.
	r, err = Empty(`.`, Options{})
	if err != nil || r.Holds || r.Witness != "a" {
		t.Errorf("got %+v, %v", r, err)
	}
}

// ---------------------------------------------------------------------------
// 2. Known equalities and differences
// ---------------------------------------------------------------------------

func mustEquiv(t *testing.T, a, b string, opt Options) {
	t.Helper()
	r, err := Equivalent(a, b, opt)
	if err != nil {
		t.Fatalf("Equivalent(%q,%q): %v", a, b, err)
	}
	if !r.Holds {
		t.Errorf("Equivalent(%q,%q,%v) = false, witness %q (InA=%v)", a, b, opt, r.Witness, r.InA)
	}
	for _, p := range [][2]string{{a, b}, {b, a}} {
		s, err := Subset(p[0], p[1], opt)
		if err != nil || !s.Holds {
			t.Errorf("Subset(%q,%q,%v) = %+v, %v", p[0], p[1], opt, s, err)
		}
	}
}

// mustDiffer checks that a and b differ, validates the witness with package
// regexp and returns the result.
func mustDiffer(t *testing.T, a, b string, opt Options) Result {
	t.Helper()
	r, err := Equivalent(a, b, opt)
	if err != nil {
		t.Fatalf("Equivalent(%q,%q): %v", a, b, err)
	}
	if r.Holds {
		t.Errorf("Equivalent(%q,%q,%v) = true, want a difference", a, b, opt)
		return r
	}
	checkWitness(t, "Equivalent", a, b, regexp.MustCompile(a), regexp.MustCompile(b), opt, r, nil)
	// symmetric call must report the mirrored result
	r2, err := Equivalent(b, a, opt)
	if err != nil || r2.Holds || r2.InA == r.InA || utf8.RuneCountInString(r2.Witness) != utf8.RuneCountInString(r.Witness) {
		t.Errorf("Equivalent(%q,%q) = %+v, %v; not the mirror of %+v", b, a, r2, err, r)
	}
	return r
}

func anchored(p string) string { return `^(?:` + p + `)$` }

func TestKnownEqualities(t *testing.T) {
	mustEquiv(t, patImmutable, `^\s*//\s*@immutable(?:\s.*)?$`, noNL)
	mustEquiv(t, `[A-Za-z_]`, `[a-zA-Z_]`, Options{})
	mustEquiv(t, anchored(`[A-Za-z_]+`), anchored(`[a-zA-Z_]+`), Options{})
	mustEquiv(t, `\s`, `[\t\n\f\r ]`, Options{})
	mustEquiv(t, anchored(`\s*`), anchored(`[\t\n\f\r ]*`), Options{})
	mustEquiv(t, `a|b`, `[ab]`, Options{})
	mustEquiv(t, anchored(`(?:a|b)*c`), anchored(`[ab]*c`), Options{})
	mustEquiv(t, `\w+`, `\w`, Options{}) // search semantics
	mustEquiv(t, `a*`, ``, Options{})    // both match everything
	mustEquiv(t, `.`, `[^\n]`, Options{})
	mustEquiv(t, `(?s).`, `[\x00-\x{10FFFF}]`, Options{})
	mustEquiv(t, `^a.*?b$`, `^a.*b$`, Options{})
	mustEquiv(t, `^(?:a|ab)(?:c|bcd)$`, `^(?:ac|abcd|abc|abbcd)$`, Options{})
	mustEquiv(t, `(?i)k`, `[kK\x{212A}]`, Options{})
	mustEquiv(t, `(?i)k`, `[kK]`, Options{ExcludeRunes: []rune{0x212A}})
	mustEquiv(t, `(?i)^straSSe$`, `^[sS\x{17F}][tT][rR][aA][sS\x{17F}][sS\x{17F}][eE]$`, Options{})
	mustEquiv(t, `\bfoo\b`, `(?:^|\W)foo(?:\W|$)`, Options{})
	mustEquiv(t, `\Bfoo`, `\wfoo`, Options{})
	mustEquiv(t, `(?m)^a$`, `(?:\A|\n)a(?:\n|\z)`, Options{})
	mustEquiv(t, `(?m)^a$`, `^a$`, noNL)
	mustEquiv(t, `^a{2,4}$`, `^aa(?:a(?:a)?)?$`, Options{})
	mustEquiv(t, `^(?:(?:a|B)(?:,(?:a|B))*)?$`, `^(?:[aB](?:,[aB])*|)$`, Options{})
	mustEquiv(t, `^(a*)*$`, `^a*$`, Options{})
	mustEquiv(t, `^(?:a*b*)*$`, `^[ab]*$`, Options{})
	// the annotation patterns: tail variants
	mustEquiv(t, patImplements, `^\s*//\s*@implements\s+&?(?:\w+\.)?\w+(?:\s.*)?$`, noNL)
	mustEquiv(t, patImplements, `^\s*//\s*@implements\s+&?(?:\w+\.)?\w+(?:\s+.*)?$`, Options{})
}

func TestKnownDifferences(t *testing.T) {
	// dropping the tail
	r := mustDiffer(t, patImmutable, `^\s*//\s*@immutable`, noNL)
	if r.InA || utf8.RuneCountInString(r.Witness) != 13 || !strings.HasPrefix(r.Witness, "//@immutable") {
		t.Errorf("tail: unexpected witness %q (InA=%v)", r.Witness, r.InA)
	}
	// dropping ^
	r = mustDiffer(t, patImmutable, `\s*//\s*@immutable(?:\s+.*)?$`, noNL)
	if r.InA || utf8.RuneCountInString(r.Witness) != 13 || !strings.HasSuffix(r.Witness, "//@immutable") {
		t.Errorf("caret: unexpected witness %q (InA=%v)", r.Witness, r.InA)
	}
	// \s* vs \s+
	r = mustDiffer(t, patImmutable, `^\s*//\s+@immutable(?:\s+.*)?$`, noNL)
	if !r.InA || r.Witness != "//@immutable" {
		t.Errorf("\\s+: unexpected witness %q (InA=%v)", r.Witness, r.InA)
	}
	// adding (?i)
	r = mustDiffer(t, patImmutable, `(?i)`+patImmutable, noNL)
	if r.InA || utf8.RuneCountInString(r.Witness) != 12 || !strings.EqualFold(r.Witness, "//@immutable") {
		t.Errorf("(?i): unexpected witness %q (InA=%v)", r.Witness, r.InA)
	}
	// \s+ vs \s in the tail matters once '\n' is allowed: "//@immutable \n"
	r = mustDiffer(t, patImmutable, `^\s*//\s*@immutable(?:\s.*)?$`, Options{})
	if !r.InA || utf8.RuneCountInString(r.Witness) != 14 || !strings.HasSuffix(r.Witness, "\n") {
		t.Errorf("tail with newline: unexpected witness %q (InA=%v)", r.Witness, r.InA)
	}
	// but `.` vs (?s:.) does
	r = mustDiffer(t, patImmutable, `^\s*//\s*@immutable(?:\s+(?s:.*))?$`, Options{})
	if r.InA || !strings.Contains(r.Witness, "\n") {
		t.Errorf("dotall: unexpected witness %q (InA=%v)", r.Witness, r.InA)
	}

	r = mustDiffer(t, `(?i)k`, `[kK]`, Options{})
	if !r.InA || r.Witness != "K" {
		t.Errorf("kelvin: unexpected witness %q", r.Witness)
	}
	r = mustDiffer(t, `\pL`, `[A-Za-z]`, Options{})
	if !r.InA || utf8.RuneCountInString(r.Witness) != 1 || r.Witness[0] < 0x80 {
		t.Errorf("\\pL: unexpected witness %q", r.Witness)
	}
	r = mustDiffer(t, `[^a]`, `[\x00-\x60\x62-\x7f]`, Options{})
	if !r.InA || utf8.RuneCountInString(r.Witness) != 1 || r.Witness[0] < 0x80 {
		t.Errorf("[^a]: unexpected witness %q", r.Witness)
	}
	mustDiffer(t, `\w+`, `^\w+$`, Options{})
	mustDiffer(t, `^a$`, `(?m)^a$`, Options{})
	mustDiffer(t, `a$`, `a\n?$`, Options{})
	mustDiffer(t, `\bfoo\b`, `foo`, Options{})
	mustDiffer(t, `^a{2,4}$`, `^a{2,5}$`, Options{})
	mustDiffer(t, `^(?:a|B)*$`, `^(?:a|B)+$`, Options{})
	mustDiffer(t, patConstructor, patImplements, noNL)
	mustDiffer(t, patImplements, `^\s*//\s*@implements\s+(&)?(?:(\w+)\.)?(\w+)(?:\s*.*)?$`, noNL)

	// Subset direction
	s, err := Subset(`^\s*//\s+@immutable(?:\s+.*)?$`, patImmutable, noNL)
	if err != nil || !s.Holds {
		t.Errorf("Subset: %+v %v", s, err)
	}
	s, err = Subset(patImmutable, `^\s*//\s+@immutable(?:\s+.*)?$`, noNL)
	if err != nil || s.Holds || !s.InA || s.Witness != "//@immutable" {
		t.Errorf("Subset: %+v %v", s, err)
	}
	s, err = Subset(`[A-Za-z]`, `\pL`, Options{})
	if err != nil || !s.Holds {
		t.Errorf("Subset: %+v %v", s, err)
	}
}

func TestEmpty(t *testing.T) {
	for _, p := range []string{`a\bb`, `$a`, `a^`, `^\b$`, `\b\B`, `[^\x00-\x{10FFFF}]`, `a\Bb\b1\B,`, `(?m)a^b`, `\Aa\Ab`, `a\z.`} {
		r, err := Empty(p, Options{})
		if err != nil || !r.Holds {
			t.Errorf("Empty(%q) = %+v, %v; want empty", p, r, err)
		}
	}
	for _, c := range []struct {
		p, w string
		opt  Options
	}{
		{`\B`, "", Options{}},
		{`(?m)^$`, "", Options{}},
		{``, "", Options{}},
		{`a`, "a", Options{}},
		{`\b`, "a", Options{}},
		{`(?m)a$\n^b`, "a\nb", Options{}},
		{`\n`, "\n", Options{}},
		{`^[a-c]{3}\b`, "aaa", Options{}},
		{`^[a-c]{3}\b`, "bbb", Options{ExcludeRunes: []rune{'a'}}},
		{`a\Bb\b,\B,`, "ab,,", Options{}},
		{patImmutable, "//@immutable", noNL},
		{patConstructor, "//@constructor", noNL},
	} {
		r, err := Empty(c.p, c.opt)
		if err != nil || r.Holds || r.Witness != c.w || !r.InA {
			t.Errorf("Empty(%q) = %+v, %v; want witness %q", c.p, r, err, c.w)
		}
		if !regexp.MustCompile(c.p).MatchString(r.Witness) {
			t.Errorf("Empty(%q): witness %q does not match", c.p, r.Witness)
		}
	}
	r, err := Empty(`\n`, noNL)
	if err != nil || !r.Holds {
		t.Errorf("Empty(\\n, noNL) = %+v, %v", r, err)
	}
	r, err = Empty(`(?m)a$\n^b`, noNL)
	if err != nil || !r.Holds {
		t.Errorf("Empty = %+v, %v", r, err)
	}
	r, err = Empty(patImplements, noNL)
	if err != nil || r.Holds || !regexp.MustCompile(patImplements).MatchString(r.Witness) || utf8.RuneCountInString(r.Witness) != len("//@implements a") {
		t.Errorf("Empty(implements) = %+v, %v", r, err)
	}
}

// ---------------------------------------------------------------------------
// 4. ExcludeRunes
// ---------------------------------------------------------------------------

func TestExcludeRunes(t *testing.T) {
	a, b := `^a.*$`, `^a(?s:.*)$`
	mustEquiv(t, a, b, noNL)
	r := mustDiffer(t, a, b, Options{})
	if r.InA || r.Witness != "a\n" {
		t.Errorf("unexpected witness %q (InA=%v)", r.Witness, r.InA)
	}
	// excluding something else does not help
	mustDiffer(t, a, b, Options{ExcludeRunes: []rune{'\r', 'a' + 1}})
	// excluding the only distinguishing runes
	mustDiffer(t, `^[a-c]$`, `^[ac]$`, Options{})
	mustEquiv(t, `^[a-c]$`, `^[ac]$`, Options{ExcludeRunes: []rune{'b'}})
	mustEquiv(t, `^[a-c]+$`, `^[ac]+$`, Options{ExcludeRunes: []rune{'b', 'b'}})
	// out-of-range excludes are ignored
	mustDiffer(t, `^[a-c]$`, `^[ac]$`, Options{ExcludeRunes: []rune{-1, unicode.MaxRune + 1}})
	mustEquiv(t, `^.$`, `^[^\n]$`, Options{ExcludeRunes: []rune{unicode.MaxRune, 0}})
}

// ---------------------------------------------------------------------------
// 3. Group / RequireGroup / AllGreedy / NumGroups
// ---------------------------------------------------------------------------

func TestNumGroupsAllGreedy(t *testing.T) {
	for p, want := range map[string]int{patImmutable: 0, patConstructor: 1, patImplements: 3, `(a)(?:b)(?P<n>c(d))`: 3, ``: 0} {
		n, err := NumGroups(p)
		if err != nil || n != want {
			t.Errorf("NumGroups(%q) = %d, %v; want %d", p, n, err, want)
		}
		if n != regexp.MustCompile(p).NumSubexp() {
			t.Errorf("NumGroups(%q) disagrees with regexp.NumSubexp", p)
		}
	}
	for p, want := range map[string]bool{
		patImmutable: true, patConstructor: true, patImplements: true,
		`a*?`: false, `a+?`: false, `a??`: false, `a{2,3}?`: false, `(?U)a*`: false, `(?U)a*?`: true,
		`(?:a+)?b`: true, `x(?:a(b*?)c)+`: false, `abc`: true, `(?U)abc`: true, `(?U:a+)b*`: false, `(?U:a)b*`: true,
	} {
		g, err := AllGreedy(p)
		if err != nil || g != want {
			t.Errorf("AllGreedy(%q) = %v, %v; want %v", p, g, err, want)
		}
	}
	if _, err := NumGroups(`(`); err == nil {
		t.Errorf("NumGroups of a bad pattern must fail")
	}
	if _, err := AllGreedy(`a**?)`); err == nil {
		t.Errorf("AllGreedy of a bad pattern must fail")
	}
	if _, err := Equivalent(`(`, `a`, Options{}); err == nil {
		t.Errorf("Equivalent of a bad pattern must fail")
	}
	if _, err := Subset(`a`, `[`, Options{}); err == nil {
		t.Errorf("Subset of a bad pattern must fail")
	}
	if _, err := Empty(`\C`, Options{}); err == nil {
		t.Errorf("Empty of a bad pattern must fail")
	}
}

func TestGroup(t *testing.T) {
	ident := `[a-zA-Z_][a-zA-Z0-9_]*`
	cases := []struct {
		p    string
		k    int
		want string
	}{
		{patImplements, 1, `&`},
		{patImplements, 2, `\w+`},
		{patImplements, 3, `\w+`},
		{patConstructor, 1, ident + `(?:\s*,\s*` + ident + `)*(?:\s*,)?`},
		{`(?i)x(abc)`, 1, `(?i)abc`},
		{`(?i)x(abc)`, 1, `[aA][bB][cC]`},
		{`(?s)a(.)`, 1, `(?s).`},
		{`a(.)`, 1, `[^\n]`},
		{`(?m)a(^b$)`, 1, `(?m)^b$`},
		{`a(^b$)`, 1, `\Ab\z`},
		{`(a|(b+|c)d)`, 2, `b+|c`},
		{`(a|(b+|c)d)`, 1, `a|(?:b+|c)d`},
		{`(?P<x>a{2,3})(b)`, 1, `aa|aaa`},
		{`(?P<x>a{2,3})(b)`, 2, `b`},
		{`x()`, 1, ``},
	}
	for _, c := range cases {
		g, err := Group(c.p, c.k)
		if err != nil {
			t.Errorf("Group(%q,%d): %v", c.p, c.k, err)
			continue
		}
		if _, err := regexp.Compile(g); err != nil {
			t.Errorf("Group(%q,%d) = %q does not compile: %v", c.p, c.k, g, err)
			continue
		}
		// whole-string languages must coincide; wrap so the anchors apply
		r, err := Equivalent(`\A(?:`+g+`)\z`, `\A(?:`+c.want+`)\z`, Options{})
		if err != nil || !r.Holds {
			t.Errorf("Group(%q,%d) = %q, not equivalent to %q: %+v %v", c.p, c.k, g, c.want, r, err)
		}
	}
	g, _ := Group(`(?U)(a+)b`, 1)
	if ok, err := AllGreedy(g); err != nil || ok {
		t.Errorf("Group of a (?U) group lost its laziness: %q", g)
	}
	for _, c := range []struct {
		p string
		k int
	}{{patImplements, 0}, {patImplements, 4}, {patImmutable, 1}, {`(a`, 1}, {patImplements, -1}} {
		if g, err := Group(c.p, c.k); err == nil {
			t.Errorf("Group(%q,%d) = %q, want error", c.p, c.k, g)
		}
		if g, err := RequireGroup(c.p, c.k); err == nil {
			t.Errorf("RequireGroup(%q,%d) = %q, want error", c.p, c.k, g)
		}
		if g, err := GroupAncestors(c.p, c.k); err == nil {
			t.Errorf("GroupAncestors(%q,%d) = %v, want error", c.p, c.k, g)
		}
	}
}

func TestRequireGroup(t *testing.T) {
	// constructor, group 1
	rg, err := RequireGroup(patConstructor, 1)
	if err != nil {
		t.Fatal(err)
	}
	re := regexp.MustCompile(rg)
	orig := regexp.MustCompile(patConstructor)
	for s, want := range map[string]bool{
		`// @constructor`:                false,
		`//@constructor`:                 false,
		`// @constructor `:               false,
		`// @constructor New`:            true,
		`// @constructor New, Other`:     true,
		`// @constructor New,Other, x y`: true,
		`// @constructor New trailing`:   true,
		`// @constructor 9`:              false,
		`// @constructors`:               false,
	} {
		if got := re.MatchString(s); got != want {
			t.Errorf("RequireGroup(constructor,1)=%q on %q: %v, want %v", rg, s, got, want)
		}
		if want && !orig.MatchString(s) {
			t.Errorf("test bug: %q", s)
		}
		// in the rewritten pattern the group always participates
		if m := re.FindStringSubmatchIndex(s); m != nil && m[2] < 0 {
			t.Errorf("group 1 did not participate in %q", s)
		}
	}
	if n, _ := NumGroups(rg); n != 1 {
		t.Errorf("NumGroups(%q) = %d", rg, n)
	}
	if s, err := Subset(rg, patConstructor, noNL); err != nil || !s.Holds {
		t.Errorf("RequireGroup result not a subset of the original: %+v %v", s, err)
	}
	if s, err := Subset(patConstructor, rg, noNL); err != nil || s.Holds || s.Witness != "//@constructor" {
		t.Errorf("original should not be a subset of RequireGroup result: %+v %v", s, err)
	}
	mustEquiv(t, rg, `^\s*//\s*@constructor(?:\s+([a-zA-Z_][a-zA-Z0-9_]*(?:\s*,\s*[a-zA-Z_][a-zA-Z0-9_]*)*(?:\s*,)?))(?:\s+.*)?$`, Options{})

	// implements
	rg1, err := RequireGroup(patImplements, 1)
	if err != nil {
		t.Fatal(err)
	}
	re1 := regexp.MustCompile(rg1)
	if re1.MatchString(`// @implements io.Reader`) || !re1.MatchString(`// @implements &io.Reader`) || !re1.MatchString(`// @implements &Reader x`) {
		t.Errorf("RequireGroup(implements,1) = %q misbehaves", rg1)
	}
	mustEquiv(t, rg1, `^\s*//\s*@implements\s+(&)(?:(\w+)\.)?(\w+)(?:\s+.*)?$`, Options{})
	rg2, err := RequireGroup(patImplements, 2)
	if err != nil {
		t.Fatal(err)
	}
	re2 := regexp.MustCompile(rg2)
	if re2.MatchString(`// @implements Reader`) || !re2.MatchString(`// @implements &io.Reader`) || !re2.MatchString(`// @implements io.Reader`) {
		t.Errorf("RequireGroup(implements,2) = %q misbehaves", rg2)
	}
	mustEquiv(t, rg2, `^\s*//\s*@implements\s+(&)?(?:(\w+)\.)(\w+)(?:\s+.*)?$`, Options{})
	rg3, err := RequireGroup(patImplements, 3)
	if err != nil {
		t.Fatal(err)
	}
	mustEquiv(t, rg3, patImplements, Options{})
	if n, _ := NumGroups(rg3); n != 3 {
		t.Errorf("NumGroups(%q) = %d", rg3, n)
	}

	// generic rewrites
	for _, c := range []struct {
		p    string
		k    int
		want string
	}{
		{`^(?:x(a)?)*y$`, 1, `^(?:x(a))+y$`},
		{`^(?:(a)b){0,3}c$`, 1, `^(?:(a)b){1,3}c$`},
		{`^(?:(a)b){0,}c$`, 1, `^(?:(a)b){1,}c$`},
		{`^(?:(a)b){2,3}c$`, 1, `^(?:(a)b){2,3}c$`},
		{`^((a)|b)?c$`, 2, `^((a)|b)c$`},
		{`^((a)|b)?c$`, 1, `^((a)|b)c$`},
		{`^a(?:(b)|c)?d$`, 1, `^a(?:(b)|c)d$`},
		{`^a(?:(b)|cc*)*d$`, 1, `^a(?:(b)|cc*)+d$`},
		{`^(?:x(a))??y$`, 1, `^(?:x(a))y$`},
		{`^(?:x(a))*?y$`, 1, `^(?:x(a))+?y$`},
		{`^(?:u(?:v(?:w(x)?)*)?)?$`, 1, `^(?:u(?:v(?:w(x))+))$`},
		{`^(?i:(?:x(a)?)?)y$`, 1, `^(?i:x(a))y$`},
		{`^((?:a)?)?b$`, 1, `^((?:a)?)b$`},
	} {
		got, err := RequireGroup(c.p, c.k)
		if err != nil {
			t.Errorf("RequireGroup(%q,%d): %v", c.p, c.k, err)
			continue
		}
		if _, err := regexp.Compile(got); err != nil {
			t.Errorf("RequireGroup(%q,%d) = %q does not compile", c.p, c.k, got)
			continue
		}
		mustEquiv(t, got, c.want, Options{})
		if a, b := regexp.MustCompile(got).NumSubexp(), regexp.MustCompile(c.p).NumSubexp(); a != b {
			t.Errorf("RequireGroup(%q,%d) = %q changed the number of groups", c.p, c.k, got)
		}
		ga, _ := AllGreedy(got)
		gb, _ := AllGreedy(c.want)
		if ga != gb {
			t.Errorf("RequireGroup(%q,%d) = %q changed greediness", c.p, c.k, got)
		}
	}
	if g, err := RequireGroup(`^(?:(a)){0}b$`, 1); err == nil {
		t.Errorf("RequireGroup under {0} = %q, want error", g)
	}

	anc, err := GroupAncestors(`^a(?:(b)|c)?d$`, 1)
	if err != nil {
		t.Fatal(err)
	}
	var hasAlt, hasQuest bool
	for _, op := range anc {
		hasAlt = hasAlt || op == syntax.OpAlternate
		hasQuest = hasQuest || op == syntax.OpQuest
		if op == syntax.OpCapture {
			t.Errorf("GroupAncestors must not include the group itself: %v", anc)
		}
	}
	if !hasAlt || !hasQuest || anc[0] != syntax.OpConcat {
		t.Errorf("GroupAncestors = %v", anc)
	}
	anc, err = GroupAncestors(patConstructor, 1)
	if err != nil {
		t.Fatal(err)
	}
	for _, op := range anc {
		if op != syntax.OpConcat && op != syntax.OpQuest {
			t.Errorf("constructor group 1: unexpected ancestor %v in %v", op, anc)
		}
	}
	anc, err = GroupAncestors(`(a)`, 1)
	if err != nil || len(anc) != 0 {
		t.Errorf("GroupAncestors((a),1) = %v, %v", anc, err)
	}
}

// ---------------------------------------------------------------------------
// Limits
// ---------------------------------------------------------------------------

func TestStateLimit(t *testing.T) {
	if testing.Short() {
		t.Skip("slow")
	}
	p := `^[ab]*a[ab]{18}$`
	r, err := Equivalent(p, p, Options{})
	if err == nil || !errors.Is(err, ErrTooManyStates) {
		t.Errorf("want ErrTooManyStates, got %+v, %v", r, err)
	}
	// a moderately large but feasible instance
	r, err = Equivalent(`^[ab]*a[ab]{10}$`, `^[ab]*a[ab]{10}b?$`, Options{})
	if err != nil || r.Holds {
		t.Errorf("got %+v, %v", r, err)
	} else {
		checkWitness(t, "Equivalent", "", "", regexp.MustCompile(`^[ab]*a[ab]{10}$`), regexp.MustCompile(`^[ab]*a[ab]{10}b?$`), Options{}, r, nil)
		if utf8.RuneCountInString(r.Witness) != 12 {
			t.Errorf("witness %q should have 12 runes", r.Witness)
		}
	}
	r, err = Equivalent(`^[ab]*a[ab]{10}$`, `^(?:a|b)*a(?:a|b){10}$`, Options{})
	if err != nil || !r.Holds {
		t.Errorf("got %+v, %v", r, err)
	}
}

// Random walk over longer strings: the DFA must agree with regexp beyond the
// brute-force length too (deterministic pseudo-random generator).
func TestLongStrings(t *testing.T) {
	seed := uint32(12345)
	rnd := func(n int) int {
		seed = seed*1664525 + 1013904223
		return int(seed>>8) % n
	}
	frags := []string{"//", "@immutable", "@constructor", "@implements", " ", "\t", "\n", "a", "B", "_", "1", ",", ".", "&", "foo", "New", "io", "é", "K", "x"}
	var strs []string
	for i := 0; i < 3000; i++ {
		var sb strings.Builder
		for j, n := 0, 1+rnd(8); j < n; j++ {
			sb.WriteString(frags[rnd(len(frags))])
		}
		strs = append(strs, sb.String())
	}
	pats := append([]string{`(?i)k`, `(?i)New\b`, `\pL{3}`, `[^\x00-\x7f]`, `é$`}, diffPatterns...)
	for _, p := range pats {
		re := regexp.MustCompile(p)
		d := singleDFA(t, p, Options{})
		for _, s := range strs {
			got, ok := d.run(s)
			if !ok || got != re.MatchString(s) {
				t.Errorf("pattern %q string %q: dfa=%v (ok=%v) regexp=%v", p, s, got, ok, re.MatchString(s))
				break
			}
		}
	}
}
