package main

// thorough tier: (1) the property's rules are re-run on a second load of the tree for GOARCH=386 (covers what a
// different build configuration type-checks); (2) every seeded breaking change filed for this property
// (/verif/seeded/*/meta.json, /verif/mutants/<prop>-*.patch) is applied to a scratch copy outside /repo and /verif
// and the property's check must report it (positive controls: the checker still discriminates); (3) every
// behaviour-preserving refactoring filed under /verif/benign is applied the same way and the check must stay silent
// (negative controls: the rules judge the structure the property depends on, not the spelling of today's tree).

import (
	"encoding/json"
	"fmt"
	"os"
	"os/exec"
	"path/filepath"
	"sort"
	"strings"
	"sync"
)

type control struct {
	name  string
	patch string
}

func controlsFor(prop string) []control {
	var out []control
	seedDir := filepath.Join(verifDir(), "seeded")
	ents, _ := os.ReadDir(seedDir)
	for _, e := range ents {
		b, err := os.ReadFile(filepath.Join(seedDir, e.Name(), "meta.json"))
		if err != nil {
			continue
		}
		var m struct {
			Property   string   `json:"property"`
			AlsoBreaks []string `json:"also_breaks"`
		}
		if json.Unmarshal(b, &m) != nil {
			continue
		}
		if m.Property == prop {
			out = append(out, control{e.Name(), filepath.Join(seedDir, e.Name(), "patch.diff")})
		}
	}
	muts, _ := filepath.Glob(filepath.Join(verifDir(), "mutants", strings.ToLower(prop)+"-*.patch"))
	for _, m := range muts {
		out = append(out, control{strings.TrimSuffix(filepath.Base(m), ".patch"), m})
	}
	sort.Slice(out, func(i, j int) bool { return out[i].name < out[j].name })
	return out
}

// benignControls: behaviour-preserving rewrites (written without knowledge of the checker) on which no property
// may raise an alarm.
func benignControls() []control {
	var out []control
	dir := filepath.Join(verifDir(), "benign")
	ents, _ := os.ReadDir(dir)
	for _, e := range ents {
		if e.IsDir() {
			p := filepath.Join(dir, e.Name(), "patch.diff")
			if _, err := os.Stat(p); err == nil {
				out = append(out, control{e.Name(), p})
			}
		} else if strings.HasSuffix(e.Name(), ".patch") {
			out = append(out, control{strings.TrimSuffix(e.Name(), ".patch"), filepath.Join(dir, e.Name())})
		}
	}
	sort.Slice(out, func(i, j int) bool { return out[i].name < out[j].name })
	return out
}

func (c *Ctx) thorough(pd *propDef) {
	// (1) second build configuration
	if P2, err := Load(c.P.Root, "386"); err != nil {
		c.Notes = append(c.Notes, "GOARCH=386 load failed: "+err.Error())
		c.undecided("THOROUGH/GOARCH", "386", "", "tree cannot be loaded for GOARCH=386: "+err.Error())
	} else if M2, err := P2.BuildModel(); err != nil {
		c.undecided("THOROUGH/GOARCH", "386", "", "model cannot be built for GOARCH=386: "+err.Error())
	} else {
		c2 := &Ctx{P: P2, M: M2, Prop: c.Prop, Tier: c.Tier, start: c.start}
		curP = c2.P
		pd.Rules(c2)
		bad := 0
		have := map[string]bool{}
		for _, o := range c.Obls {
			if o.Status != "discharged" {
				have[o.Key()] = true
			}
		}
		for _, o := range c2.Obls {
			if o.Status != "discharged" && !have[o.Key()] {
				// fails only under GOARCH=386
				bad++
				o.Detail = "[GOARCH=386] " + o.Detail
				c.Obls = append(c.Obls, o)
			}
		}
		c.count("obligations re-evaluated for GOARCH=386", len(c2.Obls))
		if bad == 0 {
			c.ok("THOROUGH/GOARCH", "386", "", fmt.Sprintf("%d obligations re-evaluated on the GOARCH=386 load, all discharged (apart from listed known findings)", len(c2.Obls)))
		}
	}
	// (2) positive controls
	ctrls := controlsFor(c.Prop)
	if len(ctrls) == 0 {
		c.Notes = append(c.Notes, "no seeded change is filed for this property yet: no positive control was run")
	} else {
		c.runControls(ctrls, true)
	}
	// (3) negative controls
	if ben := benignControls(); len(ben) > 0 {
		c.runControls(ben, false)
	}
}

// runControls applies each patch to a scratch copy of the tree and runs this property's quick check on it.
// wantFlag: the check must report (positive control) / must stay silent (negative control). A miss is a blind spot or a
// false alarm of the checker, not a defect of the analysed tree: it is printed as a WARNING and recorded, never a
// VIOLATION.
func (c *Ctx) runControls(ctrls []control, wantFlag bool) {
	self, err := os.Executable()
	if err != nil {
		return
	}
	type res struct {
		name    string
		flagged bool
		note    string
		first   string
	}
	results := make([]res, len(ctrls))
	sem := make(chan struct{}, 6)
	var wg sync.WaitGroup
	for i, ct := range ctrls {
		wg.Add(1)
		go func(i int, ct control) {
			defer wg.Done()
			sem <- struct{}{}
			defer func() { <-sem }()
			results[i] = res{name: ct.name}
			tmp, err := os.MkdirTemp("", "ggv_ctrl_")
			if err != nil {
				results[i].note = err.Error()
				return
			}
			defer os.RemoveAll(tmp)
			if out, err := exec.Command("rsync", "-a", "--exclude", ".git", c.P.Root+"/", tmp+"/").CombinedOutput(); err != nil {
				results[i].note = "copy failed: " + string(out)
				return
			}
			pc := exec.Command("patch", "-p1", "-s", "--no-backup-if-mismatch", "-i", ct.patch)
			pc.Dir = tmp
			if out, err := pc.CombinedOutput(); err != nil {
				results[i].note = "patch does not apply to the current tree (skipped): " + strings.TrimSpace(string(out))
				return
			}
			cmd := exec.Command(self, "check", "-prop", c.Prop, "-tier", "quick")
			cmd.Env = append(os.Environ(), "GGV_REPO="+tmp, "GGV_NO_EVIDENCE=1", "GGV_NO_REPLAY=1")
			out, _ := cmd.CombinedOutput()
			code := cmd.ProcessState.ExitCode()
			results[i].flagged = code == 1 && strings.Contains(string(out), "VIOLATION property="+c.Prop)
			results[i].note = fmt.Sprintf("exit %d", code)
			for _, ln := range strings.Split(string(out), "\n") {
				if strings.HasPrefix(ln, "VIOLATED ") {
					results[i].first = ln
					break
				}
			}
			if code != 0 && code != 1 {
				results[i].note = fmt.Sprintf("check failed to run (exit %d)", code)
			}
		}(i, ct)
	}
	wg.Wait()
	good := 0
	var summary []string
	kind := "positive"
	if !wantFlag {
		kind = "negative"
	}
	for _, r := range results {
		switch {
		case strings.HasPrefix(r.note, "patch does not apply"):
			c.Notes = append(c.Notes, "control "+r.name+": "+r.note)
			summary = append(summary, r.name+": skipped")
		case wantFlag && r.flagged:
			good++
			c.ok("THOROUGH/CONTROL", r.name, "", "seeded breaking change is reported by this check")
			summary = append(summary, r.name+": reported")
		case wantFlag:
			fmt.Printf("WARNING: control %s (a seeded change that breaks %s) is not reported by this check (%s)\n", r.name, c.Prop, r.note)
			c.Notes = append(c.Notes, "control "+r.name+" NOT reported: "+r.note)
			summary = append(summary, r.name+": MISSED")
		case !r.flagged && r.note == "exit 0":
			good++
			c.ok("THOROUGH/BENIGN", r.name, "", "behaviour-preserving refactoring raises no alarm")
			summary = append(summary, r.name+": silent")
		default:
			fmt.Printf("WARNING: benign control %s (a behaviour-preserving refactoring) makes the check for %s report: %s (%s)\n", r.name, c.Prop, r.first, r.note)
			c.Notes = append(c.Notes, "benign control "+r.name+" raised an alarm: "+r.first)
			summary = append(summary, r.name+": FALSE ALARM")
		}
	}
	c.count(kind+" controls run", len(ctrls))
	c.count(kind+" controls as expected", good)
	c.Notes = append(c.Notes, kind+" controls: "+strings.Join(summary, "; "))
}
