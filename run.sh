#!/bin/bash
# usage: ./run.sh <property id> quick|thorough      |  ./run.sh replay <file>  |  ./run.sh build
# Decides the property on /repo's current working tree by static analysis only (nothing of /repo is executed).
cd "$(dirname "$0")"
export GOTOOLCHAIN=local GOFLAGS=-mod=mod GOPROXY=off GOSUMDB=off GOWORK=off
export PATH=/opt/veriftools/go1.26.8/bin:$PATH
build() {
  mkdir -p bin
  (cd ggverif && go build -o ../bin/ggverif .) || { echo "ERROR: cannot build ggverif"; exit 2; }
}
if [ "$1" = build ]; then build; exit 0; fi
if [ ! -x bin/ggverif ] || [ -n "$(find ggverif -newer bin/ggverif -name '*.go' 2>/dev/null | head -1)" ]; then build; fi
if [ "$1" = replay ]; then exec bin/ggverif replay "$2"; fi
exec bin/ggverif check -prop "$1" -tier "${2:-${VERIF_TIER:-quick}}"
