#!/usr/bin/env python3
"""Confirm a candidate breaking change in a scratch worktree of /repo and file it under /verif/seeded/<name>/.
usage: confirm_seed.py <mutant-dir> <property> [name]
Steps: worktree of /repo HEAD under /tmp/sw; build HEAD binary; apply patch; go build ./...; pinned suite;
build mutated binary; run the demonstration with both binaries; require different output; write meta.json."""
import json, os, re, shutil, subprocess, sys, tempfile

ENV = dict(os.environ, GOFLAGS="-mod=mod", GOPROXY="off")
for k in ("GOTOOLCHAIN", "GOSUMDB"):
    ENV.pop(k, None)

def sh(cmd, cwd=None, timeout=900):
    p = subprocess.run(cmd, shell=True, cwd=cwd, env=ENV, stdout=subprocess.PIPE, stderr=subprocess.STDOUT, timeout=timeout)
    return p.returncode, p.stdout.decode("utf-8", errors="replace")

def norm(out, roots):
    for r in roots:
        out = out.replace(r, "<demo>")
    lines = [l for l in out.splitlines() if re.search(r"error: \[|^exit=|panic|FAIL|^ok|--- ", l)]
    return "\n".join(lines)

def main():
    src, prop = sys.argv[1], sys.argv[2]
    name = sys.argv[3] if len(sys.argv) > 3 else os.path.basename(src.rstrip("/"))
    wt = f"/tmp/sw/{name}"
    shutil.rmtree(wt, ignore_errors=True)
    os.makedirs("/tmp/sw", exist_ok=True)
    sh(f"git -C /repo worktree prune")
    rc, out = sh(f"git -C /repo worktree add -q --detach {wt} HEAD")
    assert rc == 0, out
    ran = []
    meta = {"property": prop, "name": name, "confirmed": False}
    try:
        rc, out = sh("go build -o /tmp/sw/gg_head ./cmd/gogreement", cwd=wt); assert rc == 0, out
        patch = os.path.join(src, "patch.diff")
        rc, out = sh(f"git apply {patch}", cwd=wt)
        if rc != 0:
            rc, out = sh(f"patch -p1 -s --no-backup-if-mismatch < {patch}", cwd=wt)
        assert rc == 0, "patch does not apply: " + out
        ran.append("git apply patch.diff (scratch worktree of /repo HEAD)")
        rc, out = sh("go build ./...", cwd=wt); meta["build_ok"] = rc == 0
        ran.append("go build ./...")
        rc, out = sh("go test -vet=off -count=1 ./... 2>&1 | tail -20", cwd=wt)
        meta["suite_ok"] = "FAIL" not in out and rc == 0
        ran.append("go test -vet=off -count=1 ./...")
        rc, out2 = sh(f"go build -o /tmp/sw/gg_{name} ./cmd/gogreement", cwd=wt); assert rc == 0, out2
        # demonstration
        demo = None
        for cand in ("demo", "demo2"):
            if os.path.isdir(os.path.join(src, cand)):
                demo = os.path.join(src, cand); break
        differ = False
        tdir = tempfile.mkdtemp(prefix="sw_demo_")
        if os.path.exists(os.path.join(src, "run_demo.sh")) and demo:
            # schedule-dependent behaviour: the demonstration is the race detector's report (deterministic enough:
            # HEAD reports none, the change reports some)
            shutil.copytree(src, os.path.join(tdir, "m"), dirs_exist_ok=True)
            sh("git stash -q", cwd=wt)
            rc, o = sh("go build -race -o /tmp/sw/gg_head_race ./cmd/gogreement", cwd=wt); assert rc == 0, o
            sh("git stash pop -q", cwd=wt)
            rc, o = sh(f"go build -race -o /tmp/sw/gg_{name}_race ./cmd/gogreement", cwd=wt); assert rc == 0, o
            def races(b, rb):
                r, o = sh(f"sh run_demo.sh {b} {rb} 20 2>&1 | grep -i 'DATA.RACE' | sort | uniq -c", cwd=os.path.join(tdir, "m"), timeout=1800)
                return re.sub(r"exit=\d+", "exit=N", o.strip())
            n1 = races("/tmp/sw/gg_head", "/tmp/sw/gg_head_race")
            n2 = races(f"/tmp/sw/gg_{name}", f"/tmp/sw/gg_{name}_race")
            ran.append("go build -race; sh run_demo.sh <binary> <race binary>  (HEAD vs. mutated: number of DATA RACE reports)")
            differ = n1 != n2 and ("reports: 0" in n1 or "reports=0" in n1)
            meta["demo_head"], meta["demo_mutant"] = n1, n2
            for f in ("/tmp/sw/gg_head_race", f"/tmp/sw/gg_{name}_race"):
                if os.path.exists(f): os.remove(f)
        elif os.path.exists(os.path.join(src, "run.sh")) and demo and not os.path.exists(os.path.join(src, "demo.sh")):
            shutil.copytree(src, os.path.join(tdir, "m"), dirs_exist_ok=True)
            base = "/tmp/mutants/C08-base"
            if os.path.isdir(base):
                shutil.copytree(base, os.path.join(tdir, "base"), dirs_exist_ok=True)
            cmdt = f"sh run.sh {{bin}} 2>&1"
            r1, o1 = sh(cmdt.format(bin="/tmp/sw/gg_head"), cwd=os.path.join(tdir, "m"))
            r2, o2 = sh(cmdt.format(bin=f"/tmp/sw/gg_{name}"), cwd=os.path.join(tdir, "m"))
            ran.append("sh run.sh <binary>  (HEAD binary vs. mutated binary)")
            n1, n2 = o1.replace(tdir, "<tmp>"), o2.replace(tdir, "<tmp>")
            differ = n1 != n2
            meta["demo_head"], meta["demo_mutant"] = n1[-3000:], n2[-3000:]
        elif os.path.exists(os.path.join(src, "demo.sh")):
            shutil.copytree(src, os.path.join(tdir, "m"), dirs_exist_ok=True)
            base = os.path.dirname(src.rstrip("/"))
            for helper in ("run.sh", "check.sh"):
                hp = os.path.join(src, helper)
                if os.path.exists(hp):
                    shutil.copy(hp, os.path.join(tdir, helper))
            cmdt = "sh demo.sh {bin} 2>&1"
            ran.append("sh demo.sh <binary>  (HEAD binary vs. mutated binary)")
            r1, o1 = sh(cmdt.format(bin="/tmp/sw/gg_head"), cwd=os.path.join(tdir, "m"))
            r2, o2 = sh(cmdt.format(bin=f"/tmp/sw/gg_{name}"), cwd=os.path.join(tdir, "m"))
            n1, n2 = o1.replace(tdir, "<tmp>"), o2.replace(tdir, "<tmp>")
            differ = n1 != n2
            meta["demo_head"], meta["demo_mutant"] = n1[-3000:], n2[-3000:]
        elif demo and (os.path.exists(os.path.join(demo, "compare.sh")) or os.path.exists(os.path.join(src, "check_suppress.sh"))):
            shutil.copytree(src, os.path.join(tdir, "m"), dirs_exist_ok=True)
            if os.path.exists(os.path.join(demo, "compare.sh")):
                cmdt = "sh demo/compare.sh {bin} $PWD/demo 2>&1; echo exit=$?"
                ran.append("sh demo/compare.sh <binary> demo  (HEAD binary vs. mutated binary)")
            else:
                cmdt = "sh check_suppress.sh {bin} demo 2>&1; echo exit=$?"
                ran.append("sh check_suppress.sh <binary> demo  (HEAD binary vs. mutated binary)")
            r1, o1 = sh(cmdt.format(bin="/tmp/sw/gg_head"), cwd=os.path.join(tdir, "m"))
            r2, o2 = sh(cmdt.format(bin=f"/tmp/sw/gg_{name}"), cwd=os.path.join(tdir, "m"))
            n1, n2 = o1.replace(tdir, "<tmp>"), o2.replace(tdir, "<tmp>")
            differ = n1 != n2
            meta["demo_head"], meta["demo_mutant"] = n1[-3000:], n2[-3000:]
        elif demo and (os.path.exists(os.path.join(demo, "run.sh")) or os.path.exists(os.path.join(src, "probe.sh"))):
            shutil.copytree(src, os.path.join(tdir, "m"), dirs_exist_ok=True)
            if os.path.exists(os.path.join(demo, "run.sh")):
                cmdt = "sh demo/run.sh {bin} 2>&1"
                ran.append("sh demo/run.sh <binary>  (HEAD binary vs. mutated binary)")
            else:
                cmdt = "sh probe.sh {bin} demo 2>&1"
                ran.append("sh probe.sh <binary> demo  (HEAD binary vs. mutated binary)")
            r1, o1 = sh(cmdt.format(bin="/tmp/sw/gg_head"), cwd=os.path.join(tdir, "m"))
            r2, o2 = sh(cmdt.format(bin=f"/tmp/sw/gg_{name}"), cwd=os.path.join(tdir, "m"))
            n1, n2 = o1.replace(tdir, "<tmp>"), o2.replace(tdir, "<tmp>")
            differ = n1 != n2
            meta["demo_head"], meta["demo_mutant"] = n1[-3000:], n2[-3000:]
        elif demo:
            d = os.path.join(tdir, "demo"); shutil.copytree(demo, d)
            exp = ""
            for f in ("expected.txt", "notes.md"):
                p = os.path.join(src, f)
                if os.path.exists(p): exp += open(p).read()
            flagsets = [""]
            for m in re.finditer(r"((?:--config\.[a-z-]+=\S+\s*)+)", exp):
                fs = m.group(1).strip()
                if fs not in flagsets: flagsets.append(fs)
            envs = [""]
            for m in re.finditer(r"(GOGREEMENT_[A-Z_]+=\S+)", exp):
                if m.group(1) not in envs: envs.append(m.group(1))
            flagsets += ["--config.scan-tests=true"]
            for e in envs:
                for fs in flagsets:
                    cmd = f"{e} {{bin}} {fs} ./... 2>&1; echo exit=$?"
                    r1, o1 = sh(cmd.format(bin="/tmp/sw/gg_head"), cwd=d)
                    r2, o2 = sh(cmd.format(bin=f"/tmp/sw/gg_{name}"), cwd=d)
                    n1, n2 = norm(o1, [d, tdir]), norm(o2, [d, tdir])
                    if prop == "C19":
                        # the excerpt is the subject: compare everything that is printed
                        n1, n2 = o1.replace(d, "<demo>").replace(tdir, "<tmp>"), o2.replace(d, "<demo>").replace(tdir, "<tmp>")
                    if n1 != n2:
                        differ = True
                        ran.append(f"cd demo && {e} gogreement {fs} ./...   (HEAD binary vs. mutated binary)".replace("  ", " "))
                        meta["demo_head"], meta["demo_mutant"] = n1[-3000:], n2[-3000:]
                        break
                if differ: break
        # unit-test style demonstration
        tests = [f for f in os.listdir(src) if f.endswith("_test.go")]
        if not differ and tests:
            for t in tests:
                txt = open(os.path.join(src, t)).read()
                pkg = re.search(r"^package (\w+)", txt, re.M).group(1)
                dest = {"util": "src/util", "config": "src/config", "annotations": "src/annotations", "ignore": "src/ignore"}.get(pkg, "src/" + pkg)
                shutil.copy(os.path.join(src, t), os.path.join(wt, dest, t))
                r2, o2 = sh(f"go test -vet=off -count=1 ./{dest}/ 2>&1 | tail -15", cwd=wt)
                sh("git stash -q", cwd=wt)   # back to HEAD (keeps untracked test)
                r1, o1 = sh(f"go test -vet=off -count=1 ./{dest}/ 2>&1 | tail -15", cwd=wt)
                sh("git stash pop -q", cwd=wt)
                os.remove(os.path.join(wt, dest, t))
                if ("FAIL" in o2) and ("FAIL" not in o1):
                    differ = True
                    ran.append(f"go test ./{dest}/ with {t}: passes on HEAD, fails with the change")
                    meta["demo_head"], meta["demo_mutant"] = o1[-1500:], o2[-1500:]
        shutil.rmtree(tdir, ignore_errors=True)
        meta["demo_differs"] = differ
        meta["confirmed"] = bool(meta.get("build_ok") and meta.get("suite_ok") and differ)
        meta["ran"] = ran
    finally:
        sh(f"git -C /repo worktree remove --force {wt}")
        for f in (f"/tmp/sw/gg_{name}",):
            if os.path.exists(f): os.remove(f)
    notes = ""
    p = os.path.join(src, "notes.md")
    if os.path.exists(p): notes = open(p).read()
    meta["needs_to_manifest"] = (re.search(r"(?is)(needs|manifest|trigger)[^\n]*\n?(.{0,600})", notes) or [None, None, ""])[2].strip()[:600] if notes else ""
    if meta["confirmed"]:
        dst = f"/verif/seeded/{name}"
        shutil.rmtree(dst, ignore_errors=True)
        os.makedirs(dst)
        shutil.copy(os.path.join(src, "patch.diff"), dst)
        for f in os.listdir(src):
            sp = os.path.join(src, f)
            if f in ("patch.diff",) or f.startswith("gg") or f in ("suite.txt", "suite_with_mutation.txt"): continue
            if os.path.isdir(sp): shutil.copytree(sp, os.path.join(dst, f))
            elif os.path.getsize(sp) < 200000: shutil.copy(sp, dst)
        json.dump(meta, open(os.path.join(dst, "meta.json"), "w"), indent=1)
    print(name, "confirmed" if meta["confirmed"] else "NOT CONFIRMED", {k: meta.get(k) for k in ("build_ok", "suite_ok", "demo_differs")})

main()
