#!/usr/bin/env python3
"""Generates /verif/MANIFEST.json from the table below (kept here so that the manifest stays consistent)."""
import json, sys

CLAIMED = {
 # id: (technique, level text, level note, design_ref)
}
NOT_APPLICABLE = {}

def load_tables():
    import importlib.util, os
    spec = importlib.util.spec_from_file_location("manifest_table", os.path.join(os.path.dirname(__file__), "manifest_table.py"))
    m = importlib.util.module_from_spec(spec); spec.loader.exec_module(m)
    return m.CLAIMED, m.NOT_APPLICABLE

def main():
    claimed, na = load_tables()
    checks = []
    for pid in sorted(claimed):
        tech, text, note, ref = claimed[pid]
        checks.append({
            "property_id": pid,
            "quick_cmd": f"./run.sh {pid} quick",
            "thorough_cmd": f"./run.sh {pid} thorough",
            "evidence_file": f"/verif/evidence/{pid}.json",
            "replay_cmd_template": "./run.sh replay {path}",
            "engine": "ggverif",
            "level_claimed": {"category": "other", "text": text, "design_ref": ref},
            "level_note": note,
            "technique": tech,
        })
    man = {
        "version": 1,
        "setup_cmd": "./run.sh build",
        "hooks": {
            "guard": "verif",
            "enable": "none needed: the checks are static analyses of /repo's sources; nothing of /repo is compiled with hooks or executed",
            "baseline_off_cmd": "cd /repo && GOFLAGS=-mod=mod GOPROXY=off go test -vet=off -count=1 ./...",
            "source_commits": [],
            "add_only": True,
        },
        "engines": [{
            "name": "ggverif", "path": "/verif/ggverif",
            "serves_properties": sorted(claimed),
            "kind_free_text": "repository-specific static analyser (go/packages + go/types + go/ssa): guard signatures of report sites, value provenance, forward flow, walk-state, table and regex-automata rules",
        }],
        "checks": checks,
        "not_applicable": [{"property_id": k, "reason": v} for k, v in sorted(na.items())],
        "notes": "Technique family: static analysis. Every check loads /repo's current sources, type-checks them and decides structural obligations; exit 0 = all obligations discharged, exit 1 + VIOLATION line = an obligation is violated or undecided, exit 2 = tree could not be analysed (never a verdict). known_findings.json lists recorded genuine defects.",
    }
    json.dump(man, open("/verif/MANIFEST.json", "w"), indent=1)
    print("claimed", len(checks), "not_applicable", len(na))

main()
