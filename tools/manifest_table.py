NOTE = "Trusted: go/parser, go/types, go/ssa (x/tools v0.50.0), the guard tables as a faithful transcription of the property statement. Decides structural necessary conditions on every run; does not execute gogreement."
CLAIMED = {
 "C01": ("SSA guard-signature + value-provenance + forward-flow analysis of every IMM report site; walk-state/prune/iteration rules",
         "For each of the IMM report sites the complete condition under which a diagnostic is created and reaches the reporter is computed from the SSA form and compared with the signature the statement dictates (index membership, @mutable, constructor exemption limited to the own package, AST dispatch, alias-safe type resolution); plus no pruning of the walk, no state carried between declarations, every list element visited. Structural necessary conditions for all inputs at once; not the behavioural iff.",
         NOTE, "DESIGN.md §4 C01"),
 "C02": ("SSA guard-signature + value-provenance + forward-flow analysis of every CTOR report site; walk-state/prune/iteration rules",
         "Same engine for the CTOR01-03 sites: constructor-index membership, exemption limited to the type's own package and keyed by the enclosing top-level function, blank/pointer/initialiser skips of CTOR03, alias-safe pointer-stripping type resolution, dispatch, no pruning, no walk state.",
         NOTE, "DESIGN.md §4 C02"),
}
ALL = ["C%02d" % i for i in range(1, 20)]
NOT_APPLICABLE = {p: "check not built yet in this session (work in progress, see DESIGN.md §10)" for p in ALL if p not in CLAIMED}
NOT_APPLICABLE["C19"] = "column/truncation arithmetic over all line lengths and columns is a numeric property of runtime values; no sound structural condition separates a right from a wrong computation (bounds guards are covered under C10)"
