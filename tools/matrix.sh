#!/bin/bash
# usage: matrix.sh <dir with */patch.diff or *.patch> — for every patch, run all 18 checks on a scratch copy; print which fire
props="C01 C02 C03 C04 C05 C06 C07 C08 C09 C10 C11 C12 C13 C14 C15 C16 C17 C18 C19"
run_one() {
  patch=$1; name=$2
  d=$(mktemp -d /tmp/mx.XXXXXX)
  rsync -a --exclude .git /repo/ $d/
  if ! (cd $d && patch -p1 -s --no-backup-if-mismatch < $patch >/dev/null 2>&1); then echo "$name PATCH-FAILED"; rm -rf $d; return; fi
  fired=""
  for p in $props; do
    out=$(GGV_REPO=$d GGV_NO_EVIDENCE=1 GGV_VERIF=/tmp/ggv_mx_$$ /verif/bin/ggverif check -prop $p 2>&1)
    rc=$?
    if [ $rc -eq 1 ]; then fired="$fired $p"; elif [ $rc -ne 0 ]; then fired="$fired $p(ERR$rc)"; fi
  done
  echo "$name:$fired"
  rm -rf $d
}
mkdir -p /tmp/ggv_mx_$$; cp /verif/known_findings.json /tmp/ggv_mx_$$/
export -f run_one; export props
for f in "$@"; do f=$(realpath "$f")
  if [ -d "$f" ]; then n=$(basename $f); run_one $f/patch.diff $n & else n=$(basename $f .patch); run_one $f $n & fi
  while [ $(jobs -r | wc -l) -ge 12 ]; do sleep 0.2; done
done
wait
rm -rf /tmp/ggv_mx_$$
