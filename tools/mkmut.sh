#!/bin/bash
# usage: mkmut.sh <name> <file relative to /repo> <python-expr transforming string s>   -> /verif/mutants/<name>.patch
set -e
name=$1; file=$2; expr=$3
d=$(mktemp -d /tmp/mk.XXXXXX)
mkdir -p $d/a/$(dirname $file) $d/b/$(dirname $file)
cp /repo/$file $d/a/$file
python3 - "$d/a/$file" "$d/b/$file" "$expr" <<'PY'
import sys,re
s=open(sys.argv[1]).read()
t=eval(sys.argv[3])
assert t!=s, "mutation did not change the file"
open(sys.argv[2],'w').write(t)
PY
(cd $d && diff -u a/$file b/$file > /verif/mutants/$name.patch || true)
rm -rf $d
echo "written /verif/mutants/$name.patch ($(grep -c '^[-+]' /verif/mutants/$name.patch) changed lines)"
