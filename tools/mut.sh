#!/bin/bash
# usage: mut.sh <patch.diff> <prop> [more props...]   — run checks against a scratch copy of /repo with the patch applied
set -u
patch=$(realpath "$1"); shift
d=$(mktemp -d /tmp/mut.XXXXXX)
rsync -a --exclude .git /repo/ $d/
if ! (cd $d && patch -p1 -s --no-backup-if-mismatch < $patch); then echo "PATCH FAILED"; rm -rf $d; exit 9; fi
rc=0
for p in "$@"; do
  GGV_REPO=$d GGV_NO_EVIDENCE=1 GGV_VERIF=${GGV_VERIF:-/verif} /verif/bin/ggverif check -prop $p 2>&1 | grep -v '^VIOLATION' | cut -c1-${CUT:-400}
done
rm -rf $d
