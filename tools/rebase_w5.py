#!/usr/bin/env python3
"""Re-base a patch written against /repo 243d540 onto the current HEAD (fixes D23, D24, D26, D27).
usage: rebase_w5.py <patch> <out.diff>
Works in the scratch clone /tmp/rb: old base + patch -> commit; cherry-pick each fix; on conflict keep the
refactored file and port the fix by pattern. Prints OK / MANUAL <why>."""
import os, re, subprocess, sys

RB = "/tmp/rb"
ALLOW_DIFF = os.environ.get("ALLOW_DIFF") == "1"  # breaking changes may differ
OLD = "243d540"
FIXES = [("D23", "58505c3"), ("D24", "01f1912"), ("D26", "248bf11"), ("D27", "e7c1f1e")]
ENV = dict(os.environ, GOFLAGS="-mod=mod", GOPROXY="off")
for k in ("GOTOOLCHAIN", "GOSUMDB"):
    ENV.pop(k, None)

def sh(cmd, check=False):
    p = subprocess.run(cmd, shell=True, cwd=RB, env=ENV, stdout=subprocess.PIPE, stderr=subprocess.STDOUT, text=True)
    if check and p.returncode != 0:
        raise SystemExit("FAILED: %s\n%s" % (cmd, p.stdout))
    return p.returncode, p.stdout

UNQUOTE_FN = '''
// unquoteImportPath returns the import path denoted by an interpreted ("io") or a raw (`io`) string literal
func unquoteImportPath(lit string) string {
	if path, err := strconv.Unquote(lit); err == nil {
		return path
	}
	return strings.Trim(lit, `"`)
}
'''

RECV_FN = '''
// ReceiverTypeName returns the name of the defined type a method declaration belongs to
// ("" for a function). The receiver may be written through a type alias
// (type A = T; func (a *A) M()): with type information the method is attributed to T,
// the type its callers see; without it the spelling of the receiver is used.
func ReceiverTypeName(info *types.Info, funcDecl *ast.FuncDecl) string {
	if funcDecl.Recv == nil || len(funcDecl.Recv.List) == 0 {
		return ""
	}
	if info != nil {
		if fn, ok := info.Defs[funcDecl.Name].(*types.Func); ok {
			if sig, ok := fn.Type().(*types.Signature); ok && sig.Recv() != nil {
				if name := util.ExtractTypeName(sig.Recv().Type()); name != "" {
					return name
				}
			}
		}
	}
	return ExtractReceiverType(funcDecl.Recv.List[0].Type)
}
'''

def port(fix, path, problems):
    full = os.path.join(RB, path)
    s = open(full).read()
    o = s
    if fix == "D23":
        pat = re.compile(r'(\w+) := (\w+)\.Obj\(\)\.Pkg\(\)\n(\s*)if \1 == nil \{')
        s, n = pat.subn(lambda m: "%s := %s.Obj().Pkg()\n%sif %s == nil || (%s.Obj().Parent() != nil && %s.Obj().Parent() != %s.Scope()) {" % (m.group(1), m.group(2), m.group(3), m.group(1), m.group(2), m.group(2), m.group(1)), s)
        pat2 = re.compile(r'(\w+) := (\w+)\.Pkg\(\)\n(\s*)if \1 == nil \{')  # obj := named.Obj(); pkg := obj.Pkg()
        def r2(m):
            return "%s := %s.Pkg()\n%sif %s == nil || (%s.Parent() != nil && %s.Parent() != %s.Scope()) {" % (m.group(1), m.group(2), m.group(3), m.group(1), m.group(2), m.group(2), m.group(1))
        s, n2 = pat2.subn(r2, s)
        pat3 = re.compile(r'if (\w+) := (\w+(?:\.Obj\(\))?)\.Pkg\(\); \1 != nil \{')
        s, n3 = pat3.subn(lambda m: "if %s := %s.Pkg(); %s != nil && (%s.Parent() == nil || %s.Parent() == %s.Scope()) {" % (m.group(1), m.group(2), m.group(1), m.group(2), m.group(2), m.group(1)), s)
        n2 += n3
        if n + n2 == 0 and ".Obj()" in s:
            problems.append("D23: no `pkg == nil` site recognised in " + path)
    elif fix == "D24":
        if path.endswith("annotation.go"):
            s, n = re.subn(r'kind, receiverType := getFuncKindAndReceiver\((\w+)\)', r'kind, _ := getFuncKindAndReceiver(\1)\n\t\t\treceiverType := ReceiverTypeName(' + os.environ.get('D24_INFO', 'pass.TypesInfo') + r', \1)', s)
            if n == 0:
                problems.append("D24: getFuncKindAndReceiver call not recognised in " + path)
            if "func ReceiverTypeName(" not in s:
                s += RECV_FN
        else:
            def rr(m):
                ctxs = re.findall(r'(\w+) \*testOnlyContext', s[:m.start()])
                cv = ctxs[-1] if ctxs else "ctx"
                return "annotations.ReceiverTypeName(%s.pass.TypesInfo, %s)" % (cv, m.group(1))
            s, n = re.subn(r'annotations\.ExtractReceiverType\((\w+)\.Recv\.List\[0\]\.Type\)', rr, s)
            if n == 0:
                problems.append("D24: ExtractReceiverType call not recognised in " + path)
    elif fix == "D26":
        pat = re.compile(r'(\t+)(\w+) := strings\.Trim\((\w+)\.Path\.Value, `"`\)\n')
        def r(m):
            i, v, sp = m.group(1), m.group(2), m.group(3)
            return ('%s// The path is an interpreted ("io") or a raw (`io`) string literal\n%s%s, err := strconv.Unquote(%s.Path.Value)\n%sif err != nil {\n%s\t%s = strings.Trim(%s.Path.Value, `"`)\n%s}\n' % (i, i, v, sp, i, i, v, sp, i))
        s, n = pat.subn(r, s)
        if n == 0:
            s, n = re.subn(r'strings\.Trim\((\w+)\.Path\.Value, `"`\)', r'unquoteImportPath(\1.Path.Value)', s)
            if n:
                s += UNQUOTE_FN
        if n == 0:
            problems.append("D26: strings.Trim of the import path not recognised in " + path)
        elif '"strconv"' not in s:
            s = s.replace('import (\n', 'import (\n\t"strconv"\n', 1)
    elif fix == "D27":
        pat = re.compile(r'(\t+)(\w+) := fset\.(?:PositionFor|Position)\((\w+)\.End\(\)(?:, false)?\)\.Line\n')
        m = pat.search(s)
        if not m:
            inl = re.compile(r'fset\.(PositionFor|Position)\((\w+)\.End\(\)((?:, false)?)\)\.Line (==|!=) (\w+)')
            def ri(mm):
                f, node, fl, op, line = mm.groups()
                start = "fset.%s(%s.Pos()%s).Line %s %s" % (f, node, fl, op, line)
                return "(%s %s %s)" % (start, "||" if op == "==" else "&&", mm.group(0))
            s, n = inl.subn(ri, s)
            if n == 0:
                problems.append("D27: node end line not recognised in " + path)
        else:
            i, endv, node = m.group(1), m.group(2), m.group(3)
            startExpr = m.group(0).strip().split(":= ", 1)[1].replace(".End()", ".Pos()")
            s = s[:m.start()] + "%snodeStartLineD27 := %s\n" % (i, startExpr) + s[m.start():]
            s, n = re.subn(r'if %s == (\w+) \{' % endv, r'if nodeStartLineD27 == \1 || %s == \1 {' % endv, s, count=1)
            s2, n2 = (s, 0)
            if n == 0:
                s2, n2 = re.subn(r'if %s != (\w+) \{' % endv, r'if nodeStartLineD27 != \1 && %s != \1 {' % endv, s, count=1)
                s = s2
            if n + n2 == 0:
                problems.append("D27: comparison with the comment line not recognised in " + path)
    if s != o:
        open(full, "w").write(s)
        sh("gofmt -w " + path)

def main():
    patch, out = sys.argv[1], sys.argv[2]
    sh("git cherry-pick --abort"); sh("git checkout -q -f main && git clean -fdq", check=True)
    sh("git branch -D rbw -q"); sh("git checkout -q -b rbw " + OLD, check=True)
    rc, o = sh("git apply " + patch)
    if rc != 0:
        rc, o = sh("git apply --3way " + patch)
        if rc != 0:
            print("MANUAL patch does not apply to", OLD, o[-300:]); return 1
    sh("git add -A && git -c user.email=r@r -c user.name=r commit -q -m refactor", check=True)
    problems = []
    for fix, commit in FIXES:
        rc, o = sh("git -c user.email=r@r -c user.name=r cherry-pick %s" % commit)
        if rc == 0:
            continue
        rc2, st = sh("git status --short")
        conflicted = [l[3:].strip() for l in st.splitlines() if l[:2] in ("UU", "AA", "DU", "UD", "AU", "UA")]
        if not conflicted:
            sh("git -c user.email=r@r -c user.name=r commit -q --allow-empty -m " + fix)
            continue
        for f in conflicted:
            if st and ("DU " + f in st or "UD " + f in st):
                problems.append("%s: %s deleted/renamed by the refactoring" % (fix, f))
                sh("git rm -q --cached " + f)
                continue
            sh("git checkout --ours -- " + f)
            local = []
            port(fix, f, local)
            if local:
                # the code may have moved to another file of the package
                import glob
                moved = False
                for g in sorted(glob.glob(os.path.join(RB, os.path.dirname(f), "*.go"))):
                    rel = os.path.relpath(g, RB)
                    if rel == f or rel.endswith("_test.go"):
                        continue
                    l2 = []
                    before = open(g).read()
                    port(fix, rel, l2)
                    if open(g).read() != before:
                        moved = True
                if not moved:
                    problems.extend(local)
        sh("git add -A")
        rc, o = sh("GIT_EDITOR=true git -c user.email=r@r -c user.name=r cherry-pick --continue")
        if rc != 0:
            sh("git -c user.email=r@r -c user.name=r commit -q --allow-empty -m " + fix)
    if os.environ.get("POST_PORT"):
        exec(open(os.environ["POST_PORT"]).read(), {"RB": RB, "re": re})
        sh("gofmt -w src && git add -A && git -c user.email=r@r -c user.name=r commit -q -m post-port")
    rc, o = sh("go build ./... 2>&1 | head -20")
    if o.strip():
        problems.append("build: " + o.strip()[:400])
    else:
        rc, o = sh("go test -vet=off -count=1 ./... 2>&1 | grep -v '^ok\\|no test files' | head -10")
        if o.strip():
            problems.append("suite: " + o.strip()[:400])
    # same behaviour as HEAD on the reproducers of the repairs
    rc, o = sh("go build -o /tmp/gg/ggrb ./cmd/gogreement")
    if rc == 0:
        for demo in ("/tmp/gg/lt", "/tmp/gg/d27", "/tmp/gg/d25", "/tmp/gg/par", "/tmp/gg/pz"):
            if not os.path.isdir(demo):
                continue
            a = subprocess.run("/tmp/gg/gghead ./... 2>&1 | grep error: | sort", shell=True, cwd=demo, env=ENV, stdout=subprocess.PIPE, text=True).stdout
            b = subprocess.run("/tmp/gg/ggrb ./... 2>&1 | grep error: | sort", shell=True, cwd=demo, env=ENV, stdout=subprocess.PIPE, text=True).stdout
            if a != b and not ALLOW_DIFF:
                problems.append("demo %s differs from HEAD" % demo)
    sh("git diff main rbw > " + out)
    rc, o = sh("git -C /repo apply --check " + out)
    if rc != 0:
        problems.append("result does not apply to /repo: " + o[:200])
    sh("git checkout -q -f main")
    if problems:
        print("MANUAL", "; ".join(problems)); return 1
    print("OK"); return 0

sys.exit(main())
