#!/usr/bin/env python3
"""Re-base a patch written against /repo e7c1f1e onto the current HEAD (fixes D28-D33).
usage: rebase_w6.py <patch> <out.diff>
Works in the scratch clone /tmp/rb: old base + patch -> commit; cherry-pick each fix; on conflict keep the
refactored file and port the fix by pattern. Prints OK / MANUAL <why>."""
import os, re, subprocess, sys

RB = "/tmp/rb"
ALLOW_DIFF = os.environ.get("ALLOW_DIFF") == "1"  # breaking changes may differ
OLD = "e7c1f1e"
FIXES = [("D28", "b1465f4"), ("D29", "c970962"), ("D30", "ef93a21"), ("D31", "941d441"), ("D33", "e1a8bd4"), ("D32", "82e74d1")]
DEMOS = ("/tmp/gg/lt", "/tmp/gg/d27", "/tmp/gg/d25", "/tmp/gg/par", "/tmp/gg/pz", "/tmp/gg/w6", "/tmp/gg/w6c")
ENV = dict(os.environ, GOFLAGS="-mod=mod", GOPROXY="off")
for k in ("GOTOOLCHAIN", "GOSUMDB"):
    ENV.pop(k, None)

def sh(cmd, check=False):
    p = subprocess.run(cmd, shell=True, cwd=RB, env=ENV, stdout=subprocess.PIPE, stderr=subprocess.STDOUT, text=True)
    if check and p.returncode != 0:
        raise SystemExit("FAILED: %s\n%s" % (cmd, p.stdout))
    return p.returncode, p.stdout

RECV_COMPOUND_FN = '''
// checkReceiverCompound checks if a method updates its receiver in place (*receiver += value)
// This is only checked for methods in the same package where the type is declared
func checkReceiverCompound(
	ctx *checkerContext,
	stmt *ast.AssignStmt,
	star *ast.StarExpr,
	tok token.Token,
) *ImmutableViolation {
	if ctx.currentReceiver == nil {
		return nil
	}
	ident, ok := ast.Unparen(star.X).(*ast.Ident)
	if !ok {
		return nil
	}
	if ident.Name != ctx.currentReceiver.name || ctx.pass.TypesInfo.Uses[ident] != ctx.currentReceiver.obj {
		return nil
	}
	if !ctx.immutableTypes.Contains(ctx.currentReceiver.pkgPath, ctx.currentReceiver.typeName) {
		return nil
	}
	if isInConstructor(ctx, ctx.currentReceiver.pkgPath, ctx.currentReceiver.typeName) {
		return nil
	}
	return &ImmutableViolation{
		TypeName: ctx.currentReceiver.typeName,
		Code:     codes.ImmutableFieldCompoundAssign,
		Pos:      star.Pos(),
		Reason:   fmt.Sprintf("cannot use %s on immutable receiver (outside constructor)", tok.String()),
		Node:     stmt,
	}
}
'''

METHOD_RECV_FN = '''
// methodReceiverType returns the receiver type of the method a selector expression
// calls (the type the method is declared on), or the type of the selector's operand
// if the selection is not known
func methodReceiverType(ctx *testOnlyContext, sel *ast.SelectorExpr) types.Type {
	if selection := ctx.pass.TypesInfo.Selections[sel]; selection != nil {
		if fn, ok := selection.Obj().(*types.Func); ok {
			if sig, ok := fn.Type().(*types.Signature); ok && sig.Recv() != nil {
				return sig.Recv().Type()
			}
		}
	}
	return ctx.pass.TypesInfo.TypeOf(sel.X)
}
'''

def port(fix, path, problems):
    full = os.path.join(RB, path)
    s = open(full).read()
    o = s
    if fix == "D28":
        m = re.search(r'func checkCompoundLHS\(([^)]*)\) \*ImmutableViolation \{\n', s)
        if not m:
            problems.append("D28: checkCompoundLHS not found in " + path)
        else:
            names = {}
            for part in m.group(1).split(","):
                part = part.strip()
                if not part:
                    continue
                nm, ty = part.split(None, 1)
                names[ty.strip()] = nm
            try:
                ctx, stmt, expr, tok = names["*checkerContext"], names["*ast.AssignStmt"], names["ast.Expr"], names["token.Token"]
            except KeyError:
                problems.append("D28: parameters of checkCompoundLHS not recognised in " + path)
            else:
                ins = ("\t// *receiver += value overwrites the receiver like *receiver = value does\n"
                       "\tif star, ok := ast.Unparen(%s).(*ast.StarExpr); ok {\n\t\treturn checkReceiverCompound(%s, %s, star, %s)\n\t}\n\n" % (expr, ctx, stmt, tok))
                s = s[:m.end()] + ins + s[m.end():]
                if "func checkReceiverCompound(" not in s:
                    s += RECV_COMPOUND_FN
    elif fix == "D29":
        s, n = re.subn(r'util\.ExtractTypeInfo\((\w+)\.pass\.TypesInfo\.TypeOf\((\w+)\.X\)\)', r'util.ExtractTypeInfo(methodReceiverType(\1, \2))', s)
        if n == 0:
            problems.append("D29: ExtractTypeInfo(TypeOf(sel.X)) not recognised in " + path)
        elif "func methodReceiverType(" not in s:
            s += METHOD_RECV_FN
    elif fix == "D30":
        pat = re.compile(r'(\t+)(\w+) := (\w+)\.pass\.TypesInfo\.ObjectOf\((\w+)\.Sel\)\n')
        def r(m):
            i, v, c, e = m.groups()
            return ("%s// The object the selector refers to, not one it defines: the type of an embedded field\n%s// (struct{ pkg.Type }) also defines the field\n"
                    "%s%s := %s.pass.TypesInfo.Uses[%s.Sel]\n%sif %s == nil {\n%s\t%s = %s.pass.TypesInfo.ObjectOf(%s.Sel)\n%s}\n" % (i, i, i, v, c, e, i, v, i, v, c, e, i))
        s, n = pat.subn(r, s)
        if n == 0:
            problems.append("D30: ObjectOf(expr.Sel) not recognised in " + path)
    elif fix == "D31":
        s, n = re.subn(r'\.Fset\.Position\((\w+)\.Pos\(\)\)(\.Filename)?', lambda m: ".Fset.PositionFor(%s.Pos(), false)%s" % (m.group(1), m.group(2) or "") if m.group(1) in ("file", "f", "astFile") else m.group(0), s)
        if s == o:
            problems.append("D31: Fset.Position(file.Pos()) not recognised in " + path)
    elif fix == "D32":
        s, n = re.subn(r'(\w+) <= (\w+)-3 \{', r'\1 < \2-3 {', s)
        if n == 0:
            problems.append("D32: pos0 <= maxLen-3 not recognised in " + path)
    elif fix == "D33":
        m = re.search(r'func checkNewCall\(', s)
        if not m:
            problems.append("D33: checkNewCall not found in " + path)
        else:
            body = s[m.start():]
            body2, n = re.subn(r'\n\tif (\w+), ok := (\w+)\.\(\*types\.Pointer\); ok \{\n\t\t\2 = types\.Unalias\(\1\.Elem\(\)\)\n\t\}\n', '\n', body, count=1)
            if n == 0:
                problems.append("D33: pointer strip in checkNewCall not recognised in " + path)
            s = s[:m.start()] + body2
    if s != o:
        open(full, "w").write(s)
        sh("gofmt -w " + path)

def finish(out):
    """after manual work on branch rbw: commit, check, write the diff"""
    sh("gofmt -w src && git add -A && git -c user.email=r@r -c user.name=r commit -q -m manual-port")
    problems = []
    rc, o = sh("go build ./... 2>&1 | head -20")
    if o.strip():
        problems.append("build: " + o.strip()[:400])
    else:
        rc, o = sh("go test -vet=off -count=1 ./... 2>&1 | grep -v '^ok\\|no test files' | head -10")
        if o.strip():
            problems.append("suite: " + o.strip()[:400])
    rc, o = sh("go build -o /tmp/gg/ggrb ./cmd/gogreement")
    if rc == 0:
        for demo in DEMOS:
            if not os.path.isdir(demo):
                continue
            a = subprocess.run("/tmp/gg/gghead ./... 2>&1 | grep error: | sort", shell=True, cwd=demo, env=ENV, stdout=subprocess.PIPE, text=True).stdout
            b = subprocess.run("/tmp/gg/ggrb ./... 2>&1 | grep error: | sort", shell=True, cwd=demo, env=ENV, stdout=subprocess.PIPE, text=True).stdout
            if a != b and not ALLOW_DIFF:
                problems.append("demo %s differs from HEAD" % demo)
    sh("git diff main rbw > " + out)
    rc, o = sh("git -C /repo apply --check " + out)
    if rc != 0:
        problems.append("result does not apply to /repo: " + o[:200])
    sh("git checkout -q -f main")
    print("MANUAL " + "; ".join(problems) if problems else "OK")
    return 1 if problems else 0

def main():
    if sys.argv[1] == "--finish":
        return finish(sys.argv[2])
    patch, out = sys.argv[1], sys.argv[2]
    sh("git cherry-pick --abort"); sh("git checkout -q -f main && git clean -fdq", check=True)
    sh("git branch -D rbw -q"); sh("git checkout -q -b rbw " + OLD, check=True)
    rc, o = sh("git apply " + patch)
    if rc != 0:
        rc, o = sh("git apply --3way " + patch)
        if rc != 0:
            print("MANUAL patch does not apply to", OLD, o[-300:]); return 1
    sh("git add -A && git -c user.email=r@r -c user.name=r commit -q -m refactor", check=True)
    problems = []
    for fix, commit in FIXES:
        rc, o = sh("git -c user.email=r@r -c user.name=r cherry-pick %s" % commit)
        if rc == 0:
            continue
        rc2, st = sh("git status --short")
        conflicted = [l[3:].strip() for l in st.splitlines() if l[:2] in ("UU", "AA", "DU", "UD", "AU", "UA")]
        if not conflicted:
            sh("git -c user.email=r@r -c user.name=r commit -q --allow-empty -m " + fix)
            continue
        for f in conflicted:
            if st and ("DU " + f in st or "UD " + f in st):
                problems.append("%s: %s deleted/renamed by the refactoring" % (fix, f))
                sh("git rm -q --cached " + f)
                continue
            sh("git checkout --ours -- " + f)
            local = []
            port(fix, f, local)
            if local:
                # the code may have moved to another file of the package
                import glob
                moved = False
                for g in sorted(glob.glob(os.path.join(RB, os.path.dirname(f), "*.go"))):
                    rel = os.path.relpath(g, RB)
                    if rel == f or rel.endswith("_test.go"):
                        continue
                    l2 = []
                    before = open(g).read()
                    port(fix, rel, l2)
                    if open(g).read() != before:
                        moved = True
                if not moved:
                    problems.extend(local)
        sh("git add -A")
        rc, o = sh("GIT_EDITOR=true git -c user.email=r@r -c user.name=r cherry-pick --continue")
        if rc != 0:
            sh("git -c user.email=r@r -c user.name=r commit -q --allow-empty -m " + fix)
    if os.environ.get("POST_PORT"):
        exec(open(os.environ["POST_PORT"]).read(), {"RB": RB, "re": re})
        sh("gofmt -w src && git add -A && git -c user.email=r@r -c user.name=r commit -q -m post-port")
    rc, o = sh("go build ./... 2>&1 | head -20")
    if o.strip():
        problems.append("build: " + o.strip()[:400])
    else:
        rc, o = sh("go test -vet=off -count=1 ./... 2>&1 | grep -v '^ok\\|no test files' | head -10")
        if o.strip():
            problems.append("suite: " + o.strip()[:400])
    # same behaviour as HEAD on the reproducers of the repairs
    rc, o = sh("go build -o /tmp/gg/ggrb ./cmd/gogreement")
    if rc == 0:
        for demo in DEMOS:
            if not os.path.isdir(demo):
                continue
            a = subprocess.run("/tmp/gg/gghead ./... 2>&1 | grep error: | sort", shell=True, cwd=demo, env=ENV, stdout=subprocess.PIPE, text=True).stdout
            b = subprocess.run("/tmp/gg/ggrb ./... 2>&1 | grep error: | sort", shell=True, cwd=demo, env=ENV, stdout=subprocess.PIPE, text=True).stdout
            if a != b and not ALLOW_DIFF:
                problems.append("demo %s differs from HEAD" % demo)
    if os.environ.get("KEEP") == "1" and problems:
        print("KEPT rbw for manual work:", "; ".join(problems)); return 1
    sh("git diff main rbw > " + out)
    rc, o = sh("git -C /repo apply --check " + out)
    if rc != 0:
        problems.append("result does not apply to /repo: " + o[:200])
    sh("git checkout -q -f main")
    if problems:
        print("MANUAL", "; ".join(problems)); return 1
    print("OK"); return 0

sys.exit(main())
