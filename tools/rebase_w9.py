#!/usr/bin/env python3
"""Re-base a patch written against /repo 8960151 onto the current HEAD (fix D39).
usage: rebase_w9.py <patch> <out.diff>
Works in the scratch clone /tmp/rb: old base + patch -> commit; cherry-pick each fix; on conflict keep the
refactored file and port the fix by pattern. Prints OK / MANUAL <why>."""
import os, re, subprocess, sys

RB = "/tmp/rb"
ALLOW_DIFF = os.environ.get("ALLOW_DIFF") == "1"  # breaking changes may differ
OLD = "8960151"
FIXES = [("D39", "ed345e3")]
DEMOS = ("/tmp/gg/lt", "/tmp/gg/d27", "/tmp/gg/d25", "/tmp/gg/par", "/tmp/gg/pz", "/tmp/gg/w6", "/tmp/gg/w6c", "/tmp/gg/w7a", "/tmp/gg/w7b")
ENV = dict(os.environ, GOFLAGS="-mod=mod", GOPROXY="off")
for k in ("GOTOOLCHAIN", "GOSUMDB"):
    ENV.pop(k, None)

def sh(cmd, check=False):
    p = subprocess.run(cmd, shell=True, cwd=RB, env=ENV, stdout=subprocess.PIPE, stderr=subprocess.STDOUT, text=True)
    if check and p.returncode != 0:
        raise SystemExit("FAILED: %s\n%s" % (cmd, p.stdout))
    return p.returncode, p.stdout

def port(fix, path, problems):
    full = os.path.join(RB, path)
    s = open(full).read()
    o = s
    if fix == "D39":
        pat = re.compile(r'(\t+)if len\((\w+)\) <= (\w+) \{\n\t+return (\w+)\n\t+\}\n')
        done = False
        for mm in pat.finditer(s):
            # the one in the display-column function: an int result (truncateString returns the string itself)
            if mm.group(4) == mm.group(2):
                continue
            ind = mm.group(1)
            s = s[:mm.start()] + "%sif len(%s) <= %s {\n%s\t// The column may lie beyond the line (a //line directive can name any column):\n%s\t// the caret then marks the end of the line\n%s\treturn min(%s, len(%s)+1)\n%s}\n" % (ind, mm.group(2), mm.group(3), ind, ind, ind, mm.group(4), mm.group(2), ind) + s[mm.end():]
            done = True
            break
        if not done:
            problems.append("D39: the untruncated return of the display-column function not recognised in " + path)
    elif fix == "D38":
        def add_imports(s, names):
            m = re.search(r'import \(\n((?:\t[^\n]*\n|\n)*?)\)', s)
            if not m:
                problems.append("D38: import block not recognised in " + path); return s
            block = m.group(1)
            for n in names:
                if ('"%s"' % n) not in block:
                    block = '\t"%s"\n' % n + block
            return s[:m.start(1)] + block + s[m.end(1):]
        if "func FromEnv" in s or "func parseEnvValue" in s:
            if "func WriteEnvFingerprint" not in s:
                s = add_imports(s, ["fmt", "io", "os"])
                s += """
// WriteEnvFingerprint writes every environment variable the configuration is read from, set or not, to w.
// A driver that caches results per tool identity (go vet) has to tell runs with different settings apart.
func WriteEnvFingerprint(w io.Writer) {
	for _, key := range []string{
		"GOGREEMENT_ENV_ONLY",
		"GOGREEMENT_SCAN_TESTS",
		"GOGREEMENT_EXCLUDE_PATHS",
		"GOGREEMENT_EXCLUDE_CHECKS",
	} {
		value, set := os.LookupEnv(key)
		fmt.Fprintf(w, "%s=%t:%q\\n", key, set, value)
	}
}
"""
        elif "multichecker.Main(" in s:
            if "printVersion" not in s:
                s = add_imports(s, ["crypto/sha256", "fmt", "io", "os", "github.com/a14e/gogreement/src/config"])
                m = re.search(r'\n(\t+)multichecker\.Main\(', s)
                ind = m.group(1)
                s = s[:m.start()] + """
%s// `go vet -vettool` asks the tool for its identity with -V=full and reuses the facts it has cached for a
%s// package as long as that identity and the flags are the same. The GOGREEMENT_* variables decide what
%s// goes into the facts, so they have to be part of the identity.
%sif len(os.Args) == 2 && os.Args[1] == "-V=full" && printVersion() {
%s	return
%s}
""" % ((ind,)*6) + s[m.start():]
                s += """
// printVersion answers -V=full in the format the go command expects from a vet tool
// (`<program> version devel ... buildID=<hash>`): the hash covers the executable, as the
// answer of multichecker does, and the configuration taken from the environment.
// It reports false, having printed nothing, when the executable cannot be read: the
// question is then left to multichecker.
func printVersion() bool {
	progname, err := os.Executable()
	if err != nil {
		return false
	}
	f, err := os.Open(progname)
	if err != nil {
		return false
	}
	defer f.Close()

	h := sha256.New()
	if _, err := io.Copy(h, f); err != nil {
		return false
	}
	config.WriteEnvFingerprint(h)
	fmt.Printf("%s version devel comments-go-here buildID=%02x\\n", progname, string(h.Sum(nil)))
	return true
}
"""
        else:
            problems.append("D38: neither the configuration nor main recognised in " + path)
    elif fix == "D34":
        m = re.search(r'func \(\w+ \*Reporter\) readSourceLines\((\w+) string, (\w+)(?: int)?, ', s)
        pat = re.compile(r'(\t)(\w+) := (\w+)\.getFileLines\((\w+)\)\n\tif \2 == nil \{\n\t\treturn sourceLines\{\}\n\t\}\n')
        mm = pat.search(s)
        if not m or not mm:
            problems.append("D34: readSourceLines / nil guard not recognised in " + path)
        else:
            line, lines = m.group(2), mm.group(2)
            s = s[:mm.end()] + "\n\t// The file as read does not have the reported line: no excerpt rather than context lines\n\t// without the line they are the context of\n\tif %s < 1 || %s > len(%s) {\n\t\treturn sourceLines{}\n\t}\n" % (line, line, lines) + s[mm.end():]
    elif fix == "D36":
        s, n = re.subn(r'return fmt\.Sprintf\("\[%s\] %s", (\w+)\.Code, \1\.Reason\)', r'return \1.Reason', s)
        if n == 0:
            problems.append("D36: GetMessage with [code] prefix not recognised in " + path)
        elif "fmt." not in s.replace('"fmt"', ''):
            s = re.sub(r'\n\t"fmt"\n', '\n', s, count=1)
    elif fix == "D37":
        pat = re.compile(r'(\t)for (\w+) := range \*(\w+) \{\n\t\t(\w+) := &\(\*\3\)\[\2\]\n\t\tif \4\.PackageName != "" && \4\.PackageName == (\w+) \{\n\t\t\treturn \4\n\t\t\}\n\t\}\n')
        mm = pat.search(s)
        if not mm:
            problems.append("D37: package-name loop of ImportMap.Find not recognised in " + path)
        else:
            i, m_, imp, short = mm.group(2), mm.group(3), mm.group(4), mm.group(5)
            first = "\t// imports without explicit alias are bound to their declared name in the file: they come first\n\tfor %s := range *%s {\n\t\t%s := &(*%s)[%s]\n\t\tif %s.Alias == \"\" && %s.PackageName != \"\" && %s.PackageName == %s {\n\t\t\treturn %s\n\t\t}\n\t}\n" % (i, m_, imp, m_, i, imp, imp, imp, short, imp)
            s = s[:mm.start()] + first + s[mm.start():]
    elif fix == "D35":
        pat = re.compile(r'(\t+)(\w+) := bufio\.NewScanner\((?:strings\.NewReader\(string\((\w+)\)\)|bytes\.NewReader\((\w+)\)|strings\.NewReader\((\w+)\))\)\n')
        mm = pat.search(s)
        if not mm:
            problems.append("D35: bufio.NewScanner over the content not recognised in " + path)
        else:
            ind, sc = mm.group(1), mm.group(2)
            content = mm.group(3) or mm.group(4) or mm.group(5)
            s = s[:mm.end()] + "%s// a line may be longer than the scanner's default limit (64 KiB): let the buffer grow up to the whole file\n%s%s.Buffer(nil, len(%s)+1)\n" % (ind, ind, sc, content) + s[mm.end():]
    if s != o:
        open(full, "w").write(s)
        sh("gofmt -w " + path)

def finish(out):
    """after manual work on branch rbw: commit, check, write the diff"""
    sh("gofmt -w src && git add -A && git -c user.email=r@r -c user.name=r commit -q -m manual-port")
    problems = []
    rc, o = sh("go build ./... 2>&1 | head -20")
    if o.strip():
        problems.append("build: " + o.strip()[:400])
    else:
        rc, o = sh("go test -vet=off -count=1 ./... 2>&1 | grep -v '^ok\\|no test files' | head -10")
        if o.strip():
            problems.append("suite: " + o.strip()[:400])
    rc, o = sh("go build -o /tmp/gg/ggrb ./cmd/gogreement")
    if rc == 0:
        for demo in DEMOS:
            if not os.path.isdir(demo):
                continue
            a = subprocess.run("/tmp/gg/gghead ./... 2>&1 | cut -c1-300 | sort", shell=True, cwd=demo, env=ENV, stdout=subprocess.PIPE, text=True).stdout
            b = subprocess.run("/tmp/gg/ggrb ./... 2>&1 | cut -c1-300 | sort", shell=True, cwd=demo, env=ENV, stdout=subprocess.PIPE, text=True).stdout
            if a != b and not ALLOW_DIFF:
                problems.append("demo %s differs from HEAD" % demo)
    sh("git diff main rbw > " + out)
    rc, o = sh("git -C /repo apply --check " + out)
    if rc != 0:
        problems.append("result does not apply to /repo: " + o[:200])
    sh("git checkout -q -f main")
    print("MANUAL " + "; ".join(problems) if problems else "OK")
    return 1 if problems else 0

def main():
    if sys.argv[1] == "--finish":
        return finish(sys.argv[2])
    patch, out = sys.argv[1], sys.argv[2]
    sh("git cherry-pick --abort"); sh("git checkout -q -f main && git clean -fdq", check=True)
    sh("git branch -D rbw -q"); sh("git checkout -q -b rbw " + OLD, check=True)
    rc, o = sh("git apply " + patch)
    if rc != 0:
        rc, o = sh("git apply --3way " + patch)
        if rc != 0:
            print("MANUAL patch does not apply to", OLD, o[-300:]); return 1
    sh("git add -A && git -c user.email=r@r -c user.name=r commit -q -m refactor", check=True)
    problems = []
    for fix, commit in FIXES:
        rc, o = sh("git -c user.email=r@r -c user.name=r cherry-pick %s" % commit)
        if rc == 0:
            continue
        rc2, st = sh("git status --short")
        conflicted = [l[3:].strip() for l in st.splitlines() if l[:2] in ("UU", "AA", "DU", "UD", "AU", "UA")]
        if not conflicted:
            sh("git -c user.email=r@r -c user.name=r commit -q --allow-empty -m " + fix)
            continue
        for f in conflicted:
            if st and ("DU " + f in st or "UD " + f in st):
                problems.append("%s: %s deleted/renamed by the refactoring" % (fix, f))
                sh("git rm -q --cached " + f)
                continue
            sh("git checkout --ours -- " + f)
            local = []
            port(fix, f, local)
            if local:
                # the code may have moved to another file of the package
                import glob
                moved = False
                for g in sorted(glob.glob(os.path.join(RB, os.path.dirname(f), "*.go"))):
                    rel = os.path.relpath(g, RB)
                    if rel == f or rel.endswith("_test.go"):
                        continue
                    l2 = []
                    before = open(g).read()
                    port(fix, rel, l2)
                    if open(g).read() != before:
                        moved = True
                if not moved:
                    problems.extend(local)
        sh("git add -A")
        rc, o = sh("GIT_EDITOR=true git -c user.email=r@r -c user.name=r cherry-pick --continue")
        if rc != 0:
            sh("git -c user.email=r@r -c user.name=r commit -q --allow-empty -m " + fix)
    if os.environ.get("POST_PORT"):
        exec(open(os.environ["POST_PORT"]).read(), {"RB": RB, "re": re})
        sh("gofmt -w src && git add -A && git -c user.email=r@r -c user.name=r commit -q -m post-port")
    rc, o = sh("go build ./... 2>&1 | head -20")
    if o.strip():
        problems.append("build: " + o.strip()[:400])
    else:
        rc, o = sh("go test -vet=off -count=1 ./... 2>&1 | grep -v '^ok\\|no test files' | head -10")
        if o.strip():
            problems.append("suite: " + o.strip()[:400])
    # same behaviour as HEAD on the reproducers of the repairs
    rc, o = sh("go build -o /tmp/gg/ggrb ./cmd/gogreement")
    if rc == 0:
        for demo in DEMOS:
            if not os.path.isdir(demo):
                continue
            a = subprocess.run("/tmp/gg/gghead ./... 2>&1 | cut -c1-300 | sort", shell=True, cwd=demo, env=ENV, stdout=subprocess.PIPE, text=True).stdout
            b = subprocess.run("/tmp/gg/ggrb ./... 2>&1 | cut -c1-300 | sort", shell=True, cwd=demo, env=ENV, stdout=subprocess.PIPE, text=True).stdout
            if a != b and not ALLOW_DIFF:
                problems.append("demo %s differs from HEAD" % demo)
    if os.environ.get("KEEP") == "1" and problems:
        print("KEPT rbw for manual work:", "; ".join(problems)); return 1
    sh("git diff main rbw > " + out)
    rc, o = sh("git -C /repo apply --check " + out)
    if rc != 0:
        problems.append("result does not apply to /repo: " + o[:200])
    sh("git checkout -q -f main")
    if problems:
        print("MANUAL", "; ".join(problems)); return 1
    print("OK"); return 0

sys.exit(main())
